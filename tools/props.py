#!/usr/bin/env python3
"""Per-property configuration of the checks: Lean modules and theorems that carry the
property, script generators for the correspondence, build configurations, back ends, oracles."""
import gen_ops, vlib
from vlib import DEFAULT_CFG, QUICK_MATRIX, full_matrix, BuildCfg

TRUSTED_BASE = [
    "Lean 4.33.0 kernel; axioms propext, Classical.choice, Quot.sound only (audited by #print axioms on every listed theorem each run; no native_decide, no bv_decide, no sorry/admit, no user axioms)",
    "Spec/*.lean: hand transcription of the SKINNY/MANTIS paper and of the properties' prose (guarded by the published test vectors, evaluated at build time, and by double definitions of the S-boxes)",
    "tools/c2lean.py + clang-14 JSON AST: translation of C functions and loop bodies to Lean under host assumptions (two's complement, little-endian x86-64, CHAR_BIT=8, GCC union punning and vector semantics); regenerated from /repo on every run",
    "hand model Impl/*.lean and Api/World.lean (control structure: loops over rounds, key-length dispatch, CTR buffer state machine, object/heap handling): validated against the compiled library by the line-protocol correspondence harness (harness/cdrv.c vs lean_exe skinny_model) on every run; differential testing, not proof",
    "libc (memcpy, memset, calloc, free), the C compilers, the CPU",
]
ASSUMPTIONS = [
    "the theorems are about the Lean model; the tie to /repo is (a) regeneration of all bit-level code by the translator and (b) agreement of model and library on the scripts run",
]

def only_default(tier): return [DEFAULT_CFG]
def cfg_matrix(tier): return QUICK_MATRIX if tier == "quick" else full_matrix()
def scalar_cfgs(tier):
    return [DEFAULT_CFG, BuildCfg("w32", w64=0)] if tier == "quick" else [DEFAULT_CFG, BuildCfg("w32", w64=0), BuildCfg("neutral64", le=0, vec128=0, vec256=0, unaligned=0), BuildCfg("neutral32", w64=0, le=0, vec128=0, vec256=0, unaligned=0), BuildCfg("clang-O2", cc="clang-14", opt="-O2"), BuildCfg("gcc-O0", opt="-O0"), BuildCfg("simd-aligned", unaligned=0)]
def all_backends(tier): return ["generic", "vec128", "vec256"]
def one_backend(tier): return ["vec256"]

def N(tier, q, t): return q if tier == "quick" else t

def s_c01(rng, tier, st):
    return gen_ops.gen_block(rng, "s128", N(tier, 6, 200), stats=st) + gen_ops.gen_block(rng, "s64", N(tier, 6, 200), stats=st)
def s_c02(rng, tier, st): return gen_ops.gen_mantis(rng, N(tier, 6, 120), stats=st)
def s_c03(rng, tier, st):
    return gen_ops.gen_block(rng, "s128", N(tier, 3, 60), directed=False, stats=st) + gen_ops.gen_block(rng, "s64", N(tier, 3, 60), directed=False, stats=st) + \
           gen_ops.gen_mantis(rng, N(tier, 3, 40), stats=st) + gen_ops.gen_parallel(rng, N(tier, 4, 40), stats=st)
def s_c04(rng, tier, st): return gen_ops.gen_tweak(rng, N(tier, 8, 150), stats=st)
def s_c05(rng, tier, st): return gen_ops.gen_ctr(rng, N(tier, 10, 150), stats=st)
def s_c06(rng, tier, st):
    return gen_ops.gen_ctr(rng, N(tier, 6, 80), stats=st) + gen_ops.gen_ctr_midstream(rng, N(tier, 6, 80), stats=st) + gen_ops.gen_parallel(rng, N(tier, 3, 30), stats=st) + \
           gen_ops.gen_api_walk(rng, N(tier, 6, 60), 25, invalid_rate=0.25, stats=st) + gen_ops.gen_invalid_midstream(rng, N(tier, 4, 40), stats=st)
def s_c07(rng, tier, st): return gen_ops.gen_parallel(rng, N(tier, 8, 100), stats=st)
def s_c10(rng, tier, st): return gen_ops.gen_keylen(rng, stats=st, junk_patterns=(0xA5, 0x00) if tier == "quick" else (0xA5, 0x00, 0xFF, 0x3C))
def s_c14(rng, tier, st): return gen_ops.gen_invalid_midstream(rng, N(tier, 6, 60), stats=st) + gen_ops.gen_api_walk(rng, N(tier, 30, 400), 30, invalid_rate=0.35, fail_rate=0.12, stats=st) + gen_ops.gen_tweak(rng, N(tier, 2, 20), stats=st)
def s_c15(rng, tier, st): return gen_ops.gen_api_walk(rng, N(tier, 30, 400), 40, invalid_rate=0.1, fail_rate=0.15, stats=st)
def s_c16(rng, tier, st): return gen_ops.gen_api_walk(rng, N(tier, 30, 400), 25, invalid_rate=0.1, fail_rate=0.5, stats=st)
def s_c17(rng, tier, st): return gen_ops.gen_api_walk(rng, N(tier, 24, 300), 20, invalid_rate=0.05, stats=st)

PROPS = {
    "C01": {"scripts": s_c01, "configs": scalar_cfgs, "backends": one_backend, "modules": [], "theorems": []},
    "C02": {"scripts": s_c02, "configs": scalar_cfgs, "backends": one_backend, "modules": [], "theorems": []},
    "C03": {"scripts": s_c03, "configs": scalar_cfgs, "backends": all_backends, "modules": [], "theorems": []},
    "C04": {"scripts": s_c04, "configs": scalar_cfgs, "backends": one_backend, "modules": [], "theorems": []},
    "C05": {"scripts": s_c05, "configs": only_default, "backends": all_backends, "modules": [], "theorems": []},
    "C06": {"scripts": s_c06, "configs": only_default, "backends": all_backends, "modules": [], "theorems": []},
    "C07": {"scripts": s_c07, "configs": only_default, "backends": all_backends, "modules": [], "theorems": []},
    "C10": {"scripts": s_c10, "configs": only_default, "backends": one_backend, "modules": [], "theorems": []},
    "C14": {"scripts": s_c14, "configs": only_default, "backends": all_backends, "modules": [], "theorems": []},
    "C15": {"scripts": s_c15, "configs": only_default, "backends": all_backends, "modules": [], "theorems": []},
    "C16": {"scripts": s_c16, "configs": only_default, "backends": all_backends, "modules": [], "theorems": []},
    "C17": {"scripts": s_c17, "configs": only_default, "backends": all_backends, "modules": [], "theorems": []},
}

# ------------------------------------------------------------------ oracles
import os, re
from vlib import Rng

def _hdr(run, cfg, be):
    p = {"generic": (0, 0), "vec128": (1, 0), "vec256": (1, 1)}[be]
    return ["cfg %s 1 1 1 1" % cfg.tag(), run.sizes_line, "probes %d %d" % p]

def oracle_cross_backend(run, tier, rng):
    """C06: the same script on every back end of the compiled library gives the same output lines
    (the advertised parallel size and the allocator event log are allowed to differ)"""
    cfg = DEFAULT_CFG
    d, cexe = run.lib(cfg)
    st = gen_ops.Stats()
    scripts = s_c06(Rng(rng.next()), tier, st)
    n = 0
    for name, body in scripts:
        outs = {}
        for be in cfg.backends():
            lines = _hdr(run, cfg, be) + body
            o, rc, err = vlib.run_driver(cexe, "\n".join(lines) + "\n")
            outs[be] = [x for x, l in zip(o, lines) if not (l.endswith(".psize p") or l == "heap" or l.startswith("probes"))]
        n += 1
        ref = outs["generic"]
        for be in cfg.backends()[1:]:
            if outs[be] != ref:
                i = next(k for k in range(max(len(ref), len(outs[be]))) if (ref[k] if k < len(ref) else None) != (outs[be][k] if k < len(outs[be]) else None))
                body_f = [l for l in (_hdr(run, cfg, be) + body) if not (l.endswith(".psize p") or l == "heap" or l.startswith("probes"))]
                # shrink: keep the prefix up to the differing operation
                def differs(ls):
                    a, rca, _ = vlib.run_driver(cexe, "\n".join(["probes 0 0"] + ls) + "\n")
                    b, rcb, _ = vlib.run_driver(cexe, "\n".join(["probes %d %d" % {"vec128": (1, 0), "vec256": (1, 1)}[be]] + ls) + "\n")
                    if rca or rcb or "bad-op" in a or "bad-op" in b: return False
                    return a[1:] != b[1:]
                from run_check import shrink
                pre = [l for l in body[: max(1, i - 1)] ]
                cand = body[: min(len(body), i + 2)]
                small = shrink(cand, 0, differs) if differs(cand) else body
                return {"ok": False, "what": "back ends differ: generic vs %s at op %r: %s vs %s" % (be, body_f[i][:70] if i < len(body_f) else "?", (ref[i] if i < len(ref) else "-")[:50], (outs[be][i] if i < len(outs[be]) else "-")[:50]),
                        "witness": {"lines": ["# run once after 'probes 0 0' and once after 'probes 1 1' (or 1 0)"] + small}, "scripts": n}
    return {"ok": True, "scripts": n, "backends": cfg.backends()}

PROPS["C06"]["oracles"] = [("cross_backend", oracle_cross_backend)]

# ------------------------------------------------------------------ more oracles
import subprocess, shutil, json as _json
ASAN = ["-fsanitize=address,undefined", "-fno-sanitize=alignment", "-fno-sanitize-recover=all", "-fno-omit-frame-pointer"]

def _build_aux(run, libdir, src, name, cc="gcc", extra=()):
    out = os.path.join(libdir, name)
    p = vlib.run([cc, "-O1", "-g", "-I" + os.path.join(libdir, "include"), "-o", out, os.path.join(vlib.VERIF, "harness", src),
                  os.path.join(libdir, "src", "libskinny.a")] + list(extra))
    if p.returncode != 0: raise RuntimeError("build of %s failed: %s" % (src, (p.stdout + p.stderr)[-1500:]))
    return out

def s_mixed(rng, tier, st):
    """the C01-C07 inputs and histories in a small dose (used by C11, C12, C09)"""
    return gen_ops.gen_block(rng, "s128", N(tier, 2, 20), directed=False, stats=st) + gen_ops.gen_block(rng, "s64", N(tier, 2, 20), directed=False, stats=st) + \
           gen_ops.gen_mantis(rng, N(tier, 2, 10), stats=st) + gen_ops.gen_tweak(rng, N(tier, 3, 20), stats=st) + \
           gen_ops.gen_ctr(rng, N(tier, 4, 30), stats=st) + gen_ops.gen_ctr_midstream(rng, N(tier, 2, 10), stats=st) + gen_ops.gen_parallel(rng, N(tier, 2, 15), stats=st)

def oracle_buffers(run, tier, rng):
    """C09: sanitizer build; every pointer argument at every alignment, flush against PROT_NONE pages,
    in-place bulk calls, all overlap offsets for single-block calls; output compared with the model"""
    cfg = DEFAULT_CFG
    d, cexe = run.lib(cfg, sanitize=ASAN)
    model = getattr(run, "model_exe", None) or os.path.join(vlib.LEAN, ".lake", "build", "bin", "skinny_model")
    st = gen_ops.Stats(); n = 0; placements = 0
    aligns = [0, 1, 3, 7, 13] if tier == "quick" else list(range(32))
    for be in cfg.backends():
        base = gen_ops.gen_ctr(Rng(rng.next()), N(tier, 3, 12), stats=st) + gen_ops.gen_parallel(Rng(rng.next()), N(tier, 2, 8), stats=st) + \
               gen_ops.gen_block(Rng(rng.next()), "s128", 1, directed=False) + gen_ops.gen_block(Rng(rng.next()), "s64", 1, directed=False) + gen_ops.gen_mantis(Rng(rng.next()), 1)[:2]
        for name, body in base:
            variants = [(["align %d" % a], {}) for a in aligns] + [(["guard 1"], {}), (["guard 2"], {}), (["guard 1"], {"CDRV_INPLACE": "1"}), (["align 5"], {"CDRV_INPLACE": "1"})]
            if name.startswith("block") or name.startswith("mantis"):
                deltas = [-15, -8, -1, 1, 8, 15, 0] if tier == "quick" else list(range(-15, 16))
                bs = 16 if "s128" in name else 8
                variants += [(["overlap %d" % dl], {}) for dl in deltas if abs(dl) < bs or dl == 0]
            for pre, env in variants:
                lines = _hdr(run, cfg, be) + pre + body
                oc, rc, err = vlib.run_driver(cexe, "\n".join(lines) + "\n", dict(env, ASAN_OPTIONS="detect_leaks=0:abort_on_error=0"))
                om, _, _ = vlib.run_driver(model, "\n".join(lines) + "\n")
                n += 1; placements += 1
                if rc != 0 or oc != om:
                    k = next((i for i in range(max(len(oc), len(om))) if (oc[i] if i < len(oc) else None) != (om[i] if i < len(om) else None)), len(oc))
                    what = "sanitizer/guard-page report or output difference: backend=%s placement=%s%s op=%r rc=%d %s" % (be, pre, " inplace" if env else "", lines[k][:70] if k < len(lines) else "?", rc, err.strip().split("\n")[0][:200] if err else "")
                    return {"ok": False, "what": what, "witness": {"lines": lines[: k + 1]}, "runs": n}
    # every key / tweak / counter length with the buffer ending flush against a PROT_NONE page
    kl = gen_ops.gen_keylen(Rng(rng.next()), junk_patterns=(0xA5,))
    for name, body in (kl if tier != "quick" else kl[:6]):
        lines = _hdr(run, cfg, cfg.backends()[-1]) + ["guard 1"] + [l for l in body if not l.startswith("junk ")]
        oc, rc, err = vlib.run_driver(cexe, "\n".join(lines) + "\n", {"ASAN_OPTIONS": "detect_leaks=0:abort_on_error=0"})
        om, _, _ = vlib.run_driver(model, "\n".join(lines) + "\n")
        n += 1; placements += 1
        if rc != 0 or oc != om:
            k = next((i for i in range(max(len(oc), len(om))) if (oc[i] if i < len(oc) else None) != (om[i] if i < len(om) else None)), len(oc))
            what = "read beyond a key/tweak buffer or output difference: key-length script %s op=%r rc=%d %s" % (name, lines[k][:70] if k < len(lines) else "?", rc, err.strip().split("\n")[0][:200] if err else "")
            return {"ok": False, "what": what, "witness": {"lines": lines[: k + 1]}, "runs": n}
    return {"ok": True, "runs": n, "placements": placements, "alignments": aligns, "sanitizers": "ASan+UBSan (alignment check off: unaligned word access is the documented SKINNY_UNALIGNED choice)"}

def oracle_junk(run, tier, rng):
    """C11: identical scripts under different prior memory contents, allocators, optimisation levels and compilers"""
    st = gen_ops.Stats()
    cfgs = [DEFAULT_CFG, BuildCfg("gcc-O0", opt="-O0"), BuildCfg("clang-O2", cc="clang-14", opt="-O2")]
    if tier != "quick": cfgs += [BuildCfg("gcc-O1-pattern", opt="-O1", extra=["-ftrivial-auto-var-init=pattern"]), BuildCfg("gcc-O1-zero", opt="-O1", extra=["-ftrivial-auto-var-init=zero"]), BuildCfg("clang-O0", cc="clang-14", opt="-O0")]
    scripts = s_mixed(Rng(rng.next()), tier, st) + gen_ops.gen_keylen(Rng(rng.next()), junk_patterns=(0x00,))[:2] + gen_ops.gen_api_walk(Rng(rng.next()), N(tier, 6, 40), 25, stats=st)
    obj_scripts = gen_ops.gen_parallel(Rng(rng.next()), N(tier, 2, 10), stats=st) + gen_ops.gen_ctr(Rng(rng.next()), N(tier, 3, 12), stats=st)
    ref = None; n = 0
    for cfg in cfgs:
        d, cexe = run.lib(cfg)
        for junk, env in ((0x00, {}), (0xA5, {"MALLOC_PERTURB_": "90"}), (0xFF, {"MALLOC_PERTURB_": "165"})):
            outs = []
            for name, body in scripts:
                lines = _hdr(run, cfg, "vec256") + ["junk %d" % junk] + [l for l in body if not l.startswith("junk ")]
                o, rc, err = vlib.run_driver(cexe, "\n".join(lines) + "\n", env)
                outs.append((name, lines, [x for x, l in zip(o, lines) if l != "heap"])); n += 1
            # object handles with garbage prior contents on every back end (the selection code paths differ)
            for be in ("generic", "vec128"):
                if be not in cfg.backends(): continue
                for name, body in obj_scripts:
                    lines = _hdr(run, cfg, be) + ["junk %d" % junk] + [l for l in body if not l.startswith("junk ")]
                    o, rc, err = vlib.run_driver(cexe, "\n".join(lines) + "\n", env)
                    if rc != 0:
                        return {"ok": False, "what": "crash with garbage prior object contents: config=%s backend=%s junk=0x%02x script=%s rc=%d %s" % (cfg.name, be, junk, name, rc, err.strip().split("\n")[0][:160] if err else ""),
                                "witness": {"lines": lines}, "runs": n}
                    outs.append((name + "@" + be, lines, [x for x, l in zip(o, lines) if l != "heap"])); n += 1
            if ref is None: ref = outs; continue
            for (name, lines, o), (_, rlines, ro) in zip(outs, ref):
                if o != ro:
                    k = next(i for i in range(max(len(o), len(ro))) if (o[i] if i < len(o) else None) != (ro[i] if i < len(ro) else None))
                    return {"ok": False, "what": "result depends on prior memory contents / build: config=%s junk=0x%02x op=%r: %s vs reference %s" % (cfg.name, junk, lines[k][:70], (o[k] if k < len(o) else "-")[:50], (ro[k] if k < len(ro) else "-")[:50]),
                            "witness": {"lines": lines[: k + 1]}, "runs": n}
    res = {"ok": True, "runs": n, "configs": [c.name for c in cfgs], "junk_patterns": [0, 0xA5, 0xFF]}
    if tier != "quick" and shutil.which("valgrind"):
        d, cexe = run.lib(BuildCfg("gcc-O1", opt="-O1"))
        lines = _hdr(run, DEFAULT_CFG, "vec256") + scripts[0][1][:60] + scripts[-1][1]
        p = subprocess.run(["valgrind", "-q", "--error-exitcode=9", "--malloc-fill=0x5a", "--free-fill=0xc3", cexe], input="\n".join(lines) + "\n", capture_output=True, text=True)
        res["memcheck_uninit"] = "clean" if p.returncode == 0 else p.stderr[-600:]
        if p.returncode == 9:
            return {"ok": False, "what": "memcheck: output depends on uninitialised memory: " + p.stderr.strip().split("\n")[0][:200], "witness": {"lines": lines}}
    return res

def fact_c11(facts, meta):
    out = []
    for nm, m in meta.items():
        if m.get("junk_reads"): out.append("%s reads uninitialised local memory: %s" % (nm, m["junk_reads"]))
        if m.get("dispatch") and m.get("uses_junk"): out.append("%s: a size-specialised loader reads uninitialised memory" % nm)
    return out

def fact_c08(facts, meta):
    out = []
    for nm, m in meta.items():
        if m.get("leak"): out.append("%s: secret-dependent branch or address: %s" % (nm, m["leak"][:2]))
    return out

def oracle_taint(run, tier, rng):
    """C08: memcheck with all secrets undefined on the compiled library"""
    if not shutil.which("valgrind"): return {"ok": True, "skipped": "valgrind not available"}
    cfgs = [DEFAULT_CFG] if tier == "quick" else [DEFAULT_CFG, BuildCfg("gcc-O0", opt="-O0"), BuildCfg("gcc-O1", opt="-O1"), BuildCfg("gcc-O2", opt="-O2"), BuildCfg("clang-O3", cc="clang-14", opt="-O3"), BuildCfg("clang-O0", cc="clang-14", opt="-O0"), BuildCfg("w32", w64=0), BuildCfg("nosimd-aligned", vec128=0, vec256=0, unaligned=0)]
    runs = []
    for cfg in cfgs:
        d, _ = run.lib(cfg)
        exe = _build_aux(run, d, "ct_taint.c", "ct_taint_" + cfg.name, cfg.cc)
        p = subprocess.run(["valgrind", "-q", "--error-exitcode=9", "--track-origins=no", exe] + (["quick"] if tier == "quick" else []), capture_output=True, text=True, timeout=1800)
        runs.append({"config": cfg.name, "rc": p.returncode, "out": p.stdout.strip()})
        if p.returncode != 0:
            first = [l for l in p.stderr.split("\n") if "depends on uninit" in l or "Use of uninit" in l or " at 0x" in l or " by 0x" in l][:6]
            return {"ok": False, "what": "secret-dependent branch or address in the compiled library (config %s): %s" % (cfg.name, " | ".join(x.strip() for x in first)[:500]),
                    "witness": {"lines": ["# valgrind -q --error-exitcode=9 ct_taint (harness/ct_taint.c) built against config %s" % cfg.name] + p.stderr.split("\n")[:40]}, "runs": runs}
    return {"ok": True, "runs": runs}

def arch_expect(maxleaf, l1ecx, l1edx, xcr0, l7ebx0):
    """Spec/Cpu.lean: Arch.sse2, Arch.avx2Usable"""
    sse2 = (l1edx >> 26) & 1
    avx2 = 1 if (maxleaf >= 7 and (l1ecx >> 27) & 1 and (xcr0 & 6) == 6 and (l7ebx0 >> 5) & 1) else 0
    return sse2, avx2

def cpu_models(tier, host, rng):
    """emulated CPU models (maxleaf, leaf1.ecx, leaf1.edx, leaf7.0.ebx, leaf7.n.ebx, entry ecx)"""
    ml = [1, 6, 7, 13] if tier != "quick" else [6, 7, 13]
    ecxs = [host["l1ecx"], host["l1ecx"] & ~(1 << 27)]
    edxs = [host["l1edx"], host["l1edx"] & ~(1 << 26)]
    e0 = [0, 0x20, 0x8, 0xffffffdf, 0xffffffff, 0x100, 0x28]
    en = [0, 0xffffffff]
    entry = [0, 1, 5, 0xffffffff]
    out = []
    for a in ml:
        for b in ecxs:
            for c in edxs:
                for d in e0:
                    for e in en:
                        for f in entry:
                            out.append((a, b, c, d, e, f))
    if tier == "quick":
        keep = [m for m in out if m[5] in (0, 5)]
        out = [keep[i] for i in range(0, len(keep), 3)]
    return out

def run_cpuemu(exe, m):
    p = subprocess.run([exe, str(m[0]), "%x" % m[1], "%x" % m[2], "%x" % m[3], "%x" % m[4], "%x" % m[5]], capture_output=True, text=True)
    return p.stdout.strip()

def oracle_probe(run, tier, rng):
    """C13: the compiled probes and init functions on emulated CPU models (CPUID faulting), in different
    calling contexts (entry ECX), against the architectural specification; plus the capped host runs"""
    cfg = DEFAULT_CFG
    d, _ = run.lib(cfg)
    exe = _build_aux(run, d, "probe_drv.c", "probe_drv", "gcc")
    p = subprocess.run([exe], capture_output=True, text=True)
    lines = p.stdout.strip().split("\n")
    m = re.match(r"host sse2=(\d) avx2_usable=(\d)", lines[0])
    sse2, avx2 = int(m.group(1)), int(m.group(2))
    n = 0
    for l in lines[1:]:
        n += 1
        cap = int(re.search(r"cap=(\d)", l).group(1))
        e128 = 1 if (sse2 and cap >= 1) else 0
        e256 = 1 if (avx2 and cap >= 2) else 0
        if "has128=" in l:
            g = re.search(r"has128=(\d) has256=(\d)", l)
            if (int(g.group(1)), int(g.group(2))) != (e128, e256):
                return {"ok": False, "what": "probe answer depends on the calling context or differs from CPUID: %s (host sse2=%d avx2_usable=%d)" % (l, sse2, avx2), "witness": {"lines": ["# harness/probe_drv.c", l]}}
        else:
            want128 = "vec256" if e256 else ("vec128" if e128 else "generic")
            want8 = "vec128" if e128 else "generic"
            exp = "init=111111 ctr128=%s ctr64=%s mctr=%s par128.vt=%s par128.psize=%d par64.vt=%s par64.psize=64 mpar.vt=%s mpar.psize=64" % (
                want128, want8, want8, "vec" if e128 else "null", 128 if e256 else 64, "vec" if e128 else "null", "vec" if e128 else "null")
            if exp not in l:
                return {"ok": False, "what": "back-end selection differs from the model: got %r expected ...%s" % (l, exp), "witness": {"lines": ["# harness/probe_drv.c", l]}}
    # emulated CPU models: the guard-off library (the shipped probes, no cap hook)
    d0 = vlib.build_lib(cfg, hooks=False)
    emu = _build_aux(run, d0, "cpuemu.c", "cpuemu", "gcc", extra=["-I" + os.path.join(d0, "src"), "-lpthread"])
    hi = subprocess.run([emu, "hostinfo"], capture_output=True, text=True).stdout
    hm = re.match(r"maxleaf=(\d+) l1ecx=([0-9a-f]+) l1edx=([0-9a-f]+) l7ebx=([0-9a-f]+) xcr0=([0-9a-f]+)", hi)
    emu_n = 0; emu_ok = False
    if hm:
        host = {"maxleaf": int(hm.group(1)), "l1ecx": int(hm.group(2), 16), "l1edx": int(hm.group(3), 16), "xcr0": int(hm.group(5), 16)}
        for mdl in cpu_models(tier, host, rng):
            out = run_cpuemu(emu, mdl)
            if out.startswith("emu=0"): break
            emu_ok = True
            g = re.match(r"emu=1 xcr0=\S+ has128=(\d) has256=(\d) ctr128=(\S+) psize128=(\d+)", out)
            if not g:
                return {"ok": False, "what": "cpuemu: unexpected output %r for model %r" % (out, mdl), "witness": {"lines": ["# harness/cpuemu.c " + " ".join("%x" % x for x in mdl), out]}}
            e128, e256 = arch_expect(mdl[0], mdl[1], mdl[2], host["xcr0"], mdl[3])
            wantbe = "vec256" if e256 else ("vec128" if e128 else "generic")
            got = (int(g.group(1)), int(g.group(2)), g.group(3), int(g.group(4)))
            want = (e128, e256, wantbe, 128 if e256 else 64)
            emu_n += 1
            if got != want:
                desc = "maxleaf=%d leaf1.ecx=%08x leaf1.edx=%08x leaf7.0.ebx=%08x leaf7.n.ebx=%08x entry_ecx=%08x xcr0=%x" % (mdl + (host["xcr0"],))
                return {"ok": False, "what": "on the CPU model {%s} the library reports/selects has128=%d has256=%d ctr128=%s parallel_size=%d; the architecture allows has128=%d has256=%d -> %s, %d" % ((desc,) + got + want),
                        "witness": {"lines": ["# replay: build the guard-off library and run harness/cpuemu.c with these arguments", "cpuemu %d %x %x %x %x %x" % mdl, "# got: " + out, "# want: has128=%d has256=%d ctr128=%s psize128=%d" % want]}}
    # two threads, first initialisation in the process, every schedule at CPUID granularity (guard-off library)
    sched_n = 0
    if emu_ok:
        wantbe = "vec256" if avx2 else ("vec128" if sse2 else "generic")
        want = "%s/%d" % (wantbe, 128 if avx2 else 64)
        for k in range(0, 10 if tier == "quick" else 16):
            for rep in range(1 if tier == "quick" else 3):
                out = subprocess.run([emu, "sched", str(k)], capture_output=True, text=True, timeout=60).stdout.strip()
                g = re.match(r"sched=1 k=(\d+) cpuids=(\d+) A=(\S+) B=(\S+)", out)
                if not g: break
                sched_n += 1
                if g.group(3) != want or g.group(4) != want:
                    return {"ok": False, "what": "back-end selection depends on the interleaving of two first initialisations: thread B ran while thread A was at its CPUID #%d: A selected %s, B selected %s, the CPU supports %s" % (k, g.group(3), g.group(4), want),
                            "witness": {"lines": ["# replay: build the guard-off library and run harness/cpuemu.c:", "cpuemu sched %d" % k, "# got: " + out, "# want: A=%s B=%s" % (want, want)]}}
    return {"ok": True, "lines_checked": n, "host": {"sse2": sse2, "avx2_usable": avx2}, "entry_register_values": 8, "emulated_cpu_models": emu_n, "cpuid_faulting_available": emu_ok, "two_thread_schedules": sched_n}

def fact_c13(facts, meta):
    """the CPUID instruction reads EAX (leaf) and ECX (sub-leaf): every asm statement that executes
    leaf 7 must bind ECX; XGETBV must bind ECX = 0"""
    out = []
    txt = facts.get("probe_text", {}).get("_skinny_has_vec256", "")
    for a in facts.get("asm_ops", []):
        cons = [c for c, v in a["inputs"]]
        if "cpuid" in a["template"]:
            leaf = [v for c, v in a["inputs"] if c in ("0", "a")]
            if leaf and leaf[0].strip("() ") == "7" and not any(c in ("2", "c") for c in cons):
                out.append("%s: CPUID leaf 7 executed without binding ECX (sub-leaf undefined): inputs %s" % (a["func"], a["inputs"]))
        if "xgetbv" in a["template"] and not any(c == "c" for c in cons):
            out.append("%s: XGETBV executed without binding ECX" % a["func"])
    if "_skinny_has_vec256" in facts.get("probe_text", {}):
        if "xgetbv" not in txt: out.append("_skinny_has_vec256 does not check OS support for the YMM state (no XGETBV)")
        if "__get_cpuid_max" not in txt and "cpuid_max" not in txt and not re.search(r'"0"\s*\(\s*0\s*\)', txt): out.append("_skinny_has_vec256 does not check the maximum CPUID leaf")
    return out

def oracle_threads(run, tier, rng):
    """C18: section census of the shipped (guard-off) objects + ThreadSanitizer run"""
    cfg = DEFAULT_CFG
    d = vlib.build_lib(cfg, hooks=False)
    p = vlib.run(["sh", "-c", "objdump -t %s/src/*.o" % d])
    mutable = []
    for l in p.stdout.split("\n"):
        m = re.match(r"^[0-9a-f]+\s+(\S+)\s+(\S)?\s*(\.\S+|\*COM\*)\s+[0-9a-f]+\s+(\S+)$", l.replace("\t", " "))
        parts = l.split()
        if len(parts) >= 5 and "O" in parts[1:3] or (len(parts) >= 4 and parts[-3] == "*COM*"):
            sec = parts[-3]
            # writable sections: .data, .bss, .tdata, .tbss, COMMON; `.data.rel.ro` is read-only after relocation
            if sec == "*COM*" or re.match(r"^\.(data|bss|tdata|tbss)(\.|$)", sec) and not sec.startswith(".data.rel.ro"):
                mutable.append(" ".join(parts))
    if mutable:
        return {"ok": False, "what": "mutable object with static storage duration in the compiled library: " + "; ".join(mutable[:4]), "witness": {"lines": ["# objdump -t src/*.o (guard off): objects in writable sections"] + mutable}}
    tsan = ["-fsanitize=thread"]
    dl = vlib.build_lib(BuildCfg("tsan", opt="-O1"), sanitize=tsan)
    exe = _build_aux(run, dl, "threads.c", "threads", "gcc", ["-fsanitize=thread", "-lpthread"])
    seeds = [1] if tier == "quick" else [1, 2, 3, 4, 5]
    for sd in seeds:
        seq = subprocess.run([exe, "sequential", str(sd)], capture_output=True, text=True)
        con = subprocess.run([exe, "concurrent", str(sd)], capture_output=True, text=True, env=dict(os.environ, TSAN_OPTIONS="halt_on_error=1 exitcode=66"))
        if con.returncode != 0 or "ThreadSanitizer" in con.stderr:
            return {"ok": False, "what": "ThreadSanitizer report: " + " ".join(con.stderr.split("\n")[1:4])[:300], "witness": {"lines": ["# harness/threads.c concurrent %d" % sd] + con.stderr.split("\n")[:30]}}
        if seq.stdout != con.stdout:
            return {"ok": False, "what": "concurrent results differ from sequential results", "witness": {"lines": ["# harness/threads.c seed %d" % sd] + seq.stdout.split("\n") + con.stdout.split("\n")}}
    return {"ok": True, "threads": 8, "rounds": 40, "seeds": seeds, "census": "no symbol in .data/.bss/.common of the guard-off objects"}

def fact_c18(facts, meta):
    return ["mutable object with static storage duration: %s (%s) in %s" % (g["name"], g["type"], g["file"]) for g in facts.get("globals", []) if not g["const"]]

def fact_c17(facts, meta):
    out = []
    al = {(a["file"]): a["size"] for a in facts.get("alloc", [])}
    cl = {}
    for c in facts.get("cleanse", []):
        if c["func"].endswith("cleanup"): cl[c["file"]] = c["size"]
    for f, sz in al.items():
        if f not in cl: out.append("%s: context allocated (%s bytes) but cleanup does not cleanse it" % (f, sz))
        elif cl[f] != sz: out.append("%s: cleanup cleanses %s bytes of a %s-byte context" % (f, cl[f], sz))
    return out

def fact_c14(facts, meta):
    """documented NULL-tolerant parameters must be tested before use"""
    want = {"skinny128_set_tweak": ["ks"], "skinny64_set_tweak": ["ks"], "mantis_set_tweak": ["ks", "tweak"],
            "skinny128_parallel_ecb_init": ["ecb"], "skinny64_parallel_ecb_init": ["ecb"], "mantis_parallel_ecb_init": ["ecb"],
            "skinny128_set_key": ["ks", "key"], "skinny64_set_key": ["ks", "key"], "mantis_set_key": ["ks", "key"],
            "skinny128_set_tweaked_key": ["ks", "key"], "skinny64_set_tweaked_key": ["ks", "key"]}
    out = []
    for fn, ps in want.items():
        g = facts.get("guards", {}).get(fn)
        if g is None: out.append("public function %s not found" % fn); continue
        for p_ in ps:
            if p_ not in g["checked_before_use"]: out.append("%s does not test %s for NULL before using it" % (fn, p_))
    return out

PROPS["C08"] = {"scripts": None, "configs": only_default, "backends": one_backend, "modules": [], "theorems": [], "fact_checks": fact_c08, "oracles": [("taint", oracle_taint)]}
def search_c08(run, tier, rng):
    """a C08 obligation no longer checks (a leak event in a translated function, or a function the translator can no longer
    follow): the taint run on the whole build matrix of the thorough tier, including the 32-bit-word and SIMD-off builds"""
    r = oracle_taint(run, "thorough", rng)
    if not r.get("ok", True) and r.get("witness"):
        return {"lines": r["witness"]["lines"], "what": r["what"]}
    return None
PROPS["C08"]["proof_search"] = search_c08
PROPS["C09"] = {"scripts": None, "configs": only_default, "backends": one_backend, "modules": [], "theorems": [], "oracles": [("buffers", oracle_buffers)]}
PROPS["C11"] = {"scripts": None, "configs": only_default, "backends": one_backend, "modules": [], "theorems": [], "fact_checks": fact_c11, "oracles": [("junk", oracle_junk)]}
PROPS["C12"] = {"scripts": s_mixed, "configs": cfg_matrix, "backends": all_backends, "modules": [], "theorems": []}
PROPS["C13"] = {"scripts": None, "configs": only_default, "backends": one_backend, "modules": [], "theorems": [], "fact_checks": fact_c13, "oracles": [("probe", oracle_probe)]}
PROPS["C18"] = {"scripts": None, "configs": only_default, "backends": one_backend, "modules": [], "theorems": [], "fact_checks": fact_c18, "oracles": [("threads", oracle_threads)]}
PROPS["C17"]["fact_checks"] = fact_c17
PROPS["C17"]["impl_violation"] = lambda line: ("a block was handed to free() with non-zero bytes in it" if line.startswith("live=") and "zero=false" in line else None)
PROPS["C14"]["fact_checks"] = fact_c14

# ------------------------------------------------------------------ C19 Arduino port
def gen_arduino(rng, n, st=None):
    """scripts restricted to what the Arduino classes offer (primary key sizes, Mantis-8)"""
    scripts = []
    for fam, bs, sizes, tsizes in (("s128", 16, [16, 32, 48], [16, 32]), ("s64", 8, [8, 16, 24], [8, 16])):
        L = ["%s.key.new k" % fam, "%s.tkey.new t" % fam]
        for i in range(n):
            ks = rng.choice(sizes)
            L.append("%s.set_key k %s %d" % (fam, gen_ops.hx(rng.bytes(ks)), ks))
            for _ in range(2):
                b = rng.bytes(bs)
                L.append("%s.enc k %s" % (fam, gen_ops.hx(b))); L.append("%s.dec k %s" % (fam, gen_ops.hx(b)))
            ts = rng.choice(tsizes)
            L.append("%s.set_tweaked_key t %s %d" % (fam, gen_ops.hx(rng.bytes(ts)), ts))
            L.append("%s.tenc t %s" % (fam, gen_ops.hx(rng.bytes(bs))))
            for _ in range(rng.below(5)):
                if rng.chance(0.2): L.append("%s.set_tweak t NULL %d" % (fam, bs))
                else: L.append("%s.set_tweak t %s %d" % (fam, gen_ops.hx(rng.bytes(bs)), bs))
                b = rng.bytes(bs)
                L.append("%s.tenc t %s" % (fam, gen_ops.hx(b))); L.append("%s.tdec t %s" % (fam, gen_ops.hx(b)))
        scripts.append(("arduino-" + fam, L))
    L = ["mantis.key.new m"]
    for i in range(n):
        mode = rng.below(2)
        L.append("mantis.set_key m %s 16 8 %d" % (gen_ops.hx(rng.bytes(16)), mode))
        L.append("mantis.crypt m %s" % gen_ops.hx(rng.bytes(8)))
        for _ in range(rng.below(5)):
            r = rng.below(4)
            if r == 0: L.append("mantis.swap m")
            elif r == 1: L.append("mantis.set_tweak m NULL 8")
            else: L.append("mantis.set_tweak m %s 8" % gen_ops.hx(rng.bytes(8)))
            L.append("mantis.crypt m %s" % gen_ops.hx(rng.bytes(8)))
    scripts.append(("arduino-mantis", L))
    return scripts

def oracle_arduino(run, tier, rng):
    cfg = DEFAULT_CFG
    d, cexe = run.lib(cfg)
    ard = os.path.join(d, "ardrv")
    adir = os.path.join(d, "arduino", "libraries", "Skinny")
    p = vlib.run(["sh", "-c", "g++ -O1 -I%s -I%s/utility %s %s/*.cpp -o %s" % (adir, adir, os.path.join(vlib.VERIF, "harness", "ardrv.cpp"), adir, ard)])
    if p.returncode != 0:
        return {"ok": False, "broken": "Arduino port does not build on the host: " + (p.stdout + p.stderr)[-800:]}
    model = getattr(run, "model_exe", None) or os.path.join(vlib.LEAN, ".lake", "build", "bin", "skinny_model")
    n = 0; cmp = 0
    for name, body in gen_arduino(Rng(rng.next()), N(tier, 25, 400)):
        lines = _hdr(run, cfg, "vec256") + body
        oa, rca, erra = vlib.run_driver(ard, "\n".join(lines) + "\n")
        oc, _, _ = vlib.run_driver(cexe, "\n".join(lines) + "\n")
        om, _, _ = vlib.run_driver(model, "\n".join(lines) + "\n")
        n += 1
        for i, l in enumerate(lines):
            a = oa[i] if i < len(oa) else "<missing>"
            if a == "undef": continue
            cmp += 1
            if a != (oc[i] if i < len(oc) else None) or a != (om[i] if i < len(om) else None):
                return {"ok": False, "what": "Arduino class differs from the C library / model at op %r: arduino=%s c=%s model=%s" % (l[:70], a[:40], (oc[i] if i < len(oc) else "-")[:40], (om[i] if i < len(om) else "-")[:40]),
                        "witness": {"lines": lines[: i + 1]}}
    # CTR<Skinny128_*> against the C library's CTR with a 16-byte counter, arbitrary cuts
    r2 = Rng(rng.next())
    for variant, ks in ((128, 16), (256, 32), (384, 48)):
        for rep in range(N(tier, 6, 60)):
            key = r2.bytes(ks)
            iv = r2.choice(gen_ops.carry_counters(r2, 16))
            cuts = gen_ops.cut_sizes(r2, 16, 4, r2.below(300))
            datas = [r2.bytes(c) for c in cuts]
            la = ["ctr128.new a %d" % variant, "ctr.set_key a %s" % key.hex(), "ctr.set_iv a %s" % iv.hex()] + ["ctr.encrypt a %s" % gen_ops.hx(x) for x in datas]
            lc = _hdr(run, cfg, "vec256") + ["h.new c zero", "ctr128.init c", "ctr128.set_key c %s %d" % (key.hex(), ks), "ctr128.set_counter c %s 16" % iv.hex()] + ["ctr128.encrypt c %s" % gen_ops.hx(x) for x in datas] + ["ctr128.cleanup c"]
            oa, _, _ = vlib.run_driver(ard, "\n".join(la) + "\n")
            oc, _, _ = vlib.run_driver(cexe, "\n".join(lc) + "\n")
            om, _, _ = vlib.run_driver(model, "\n".join(lc) + "\n")
            n += 1
            ea = [x.replace("out=", "") for x in oa[3:]]
            ec = [x.replace("ret=1 out=", "") for x in oc[7:-1]]
            em = [x.replace("ret=1 out=", "") for x in om[7:-1]]
            cmp += len(ea)
            if ea != ec or ea != em:
                return {"ok": False, "what": "CTR<Skinny128_%d> differs from skinny128_ctr_* : iv=%s cuts=%s" % (variant, iv.hex(), cuts[:10]), "witness": {"lines": la + ["# versus"] + lc}}
    # AVR look-up tables in the sources versus the specification's S-boxes (not executed on the host)
    tabs = {}
    for fn in ("Skinny128.cpp", "Skinny64.cpp", "Mantis8.cpp"):
        txt = open(os.path.join(adir, fn)).read()
        for m in re.finditer(r"static\s+(?:const\s+)?uint8_t\s+(?:const\s+)?(\w+)\[(\d*)\]\s*(?:PROGMEM)?\s*=\s*\{(.*?)\};", txt, re.S):
            vals = [int(x, 0) for x in re.findall(r"0x[0-9a-fA-F]+|\b\d+\b", m.group(3))]
            tabs[fn + ":" + m.group(1)] = vals
    return {"ok": True, "scripts": n, "compared_lines": cmp, "avr_tables_found": {k: len(v) for k, v in tabs.items()}, "classes": 11}

PROPS["C19"] = {"scripts": None, "configs": only_default, "backends": one_backend, "modules": [], "theorems": [], "oracles": [("arduino", oracle_arduino)]}

# ------------------------------------------------------------------ C20 example tools
def oracle_tools(run, tier, rng):
    import tools_drv
    cfg = DEFAULT_CFG
    d, cexe = run.lib(cfg)
    p = vlib.run(["make", "-C", os.path.join(d, "examples"), "COMMON_CFLAGS=-O2 -Wall -Wextra"])
    if p.returncode != 0:
        return {"ok": False, "broken": "example tools do not build: " + (p.stdout + p.stderr)[-800:]}
    wd = vlib.scratch_dir("skv-tools-")
    res = tools_drv.run_tools_check(os.path.join(d, "examples"), cexe, run.seed, N(tier, 12, 150), wd)
    if not res["ok"]:
        f = res["failures"][0]
        return {"ok": False, "what": "example tool %s: %s (argv %s)" % (f.get("tool"), f.get("what"), " ".join(map(str, f.get("argv", [])))[:200]),
                "witness": {"lines": ["# " + _json.dumps(f)[:2000]]}, "cases": res["cases"]}
    # the same comparison with the Lean model (the functions the C20 theorems are about) as the reference
    model = getattr(run, "model_exe", None) or os.path.join(vlib.LEAN, ".lake", "build", "bin", "skinny_model")
    res2 = {"cases": 0}
    if os.path.exists(model):
        wd2 = vlib.scratch_dir("skv-tools-m-")
        res2 = tools_drv.run_tools_check(os.path.join(d, "examples"), model, run.seed + 7, N(tier, 3, 30), wd2)
        if not res2["ok"]:
            f = res2["failures"][0]
            return {"ok": False, "what": "example tool %s differs from the Lean model: %s (argv %s)" % (f.get("tool"), f.get("what"), " ".join(map(str, f.get("argv", [])))[:200]),
                    "witness": {"lines": ["# reference = lean/.lake/build/bin/skinny_model", "# " + _json.dumps(f)[:2000]]}, "cases": res2["cases"]}
    return {"ok": True, "cases": res["cases"], "cases_against_lean_model": res2["cases"], "distinct_nontrivial": res["distinct_nontrivial"], "invalid_cases": res["invalid_cases"],
            "by_tool": res.get("by_tool"), "length_classes": res.get("length_classes"), "invalid_classes": res.get("invalid_classes"), "samples": res.get("samples")}

PROPS["C20"] = {"scripts": None, "configs": only_default, "backends": one_backend, "modules": [], "theorems": [], "oracles": [("tools", oracle_tools)]}


# ------------------------------------------------------------------ Lean theorems per property
P = "SkinnyVerif.Properties."
def thm(pid, mods, names):
    PROPS[pid]["modules"] = ["SkinnyVerif.Properties." + m for m in mods]
    PROPS[pid]["theorems"] = [(n if n.startswith("SkinnyVerif.") else P + n) for n in names]

thm("C01", ["C01"], ["C01_skinny128", "C01_skinny64"])
thm("C03", ["C03", "C03M", "C07V"], ["C12_vec_unaligned_paths", "C07_vec128_block", "C07_vec256_block", "C07_vec64_block", "C03_skinny128", "C03_skinny64", "C03_tweaked128", "C03_tweaked64", "spec128_dec_enc", "spec128_enc_dec", "spec64_dec_enc", "spec64_enc_dec",
            "C03_mantis_spec", "C03_mantis_impl", "crypt_flip", "C02_swap_enc_is_dec"])
thm("C04", ["C04"], ["C04_skinny128", "C04_skinny64"])
VEC_INC = ["C05_v128c_increment", "C05_v256c_increment", "C05_v64c_increment", "C05_vmc_increment",
           "C06_vec128_keystream", "C06_vec256_keystream", "C06_vec64_keystream", "C06_mantis_vec128_keystream", "C05_lane_increment_sequences", "C05_source_calls_checked", "C05_vec128_stagger_and_step", "C09_xor_blocks", "C09_xor_partial"]
thm("C05", ["C05", "C06", "C05V", "C06V", "C07M", "C09X"], ["C05_stream", "C05_init", "C05_involution", "C05_calls", "C05_C06_instances"] + VEC_INC)
thm("C06", ["C06", "C05V", "C06V", "C07M", "C09X"], ["C06_ctr", "C06_step", "C06_init", "C05_C06_instances"] + VEC_INC)
# the refill step of the vector CTR files, as translated code, is the refill step of the lane state machine (Properties/C06R.lean)
REFILL = [P + "C06R_vec128_refill", P + "C06R_vec256_refill", P + "C06R_vec64_refill", P + "C06R_mantis_refill", P + "fold_value"]
for _p in ("C05", "C06"):
    PROPS[_p]["modules"].append("SkinnyVerif.Properties.C06R")
    PROPS[_p]["theorems"] += REFILL
PROPS["C08"]["modules"]  # (C08G is added below)
def search_c13(run, tier, rng):
    """a C13 theorem no longer checks: (1) the emulated-CPU matrix at full size against the real code;
    (2) the generated probe model against the architectural specification (covers XCR0, which cannot be emulated)"""
    r = oracle_probe(run, "thorough", rng)
    if not r.get("ok", True) and r.get("witness"):
        return {"lines": r["witness"]["lines"], "what": r["what"]}
    p = subprocess.run(["lake", "env", "lean", "--run", "SkinnyVerif/Driver/ProbeSearch.lean"], cwd=vlib.LEAN, capture_output=True, text=True)
    for l in p.stdout.split("\n"):
        if l.startswith("MODEL-WITNESS"):
            return {"lines": ["# processor state on which the probe translated from src/skinny-internal.c (Gen/Probes.lean) contradicts Spec/Cpu.lean",
                              "# (XCR0 cannot be emulated on the test host; evaluate with: cd lean && lake env lean --run SkinnyVerif/Driver/ProbeSearch.lean)", l],
                    "what": "probe model from the current source contradicts the architecture: " + l}
    return None
PROPS["C13"]["proof_search"] = search_c13
thm("C13", ["C13"], ["C13_probe128", "C13_probe256", "C13_deterministic", "C13_selection", "C13_never_exceeds", "C13_exists", "C13_parallel_size"])
thm("C14", ["C14"], ["C14_no_fault", "C14_failed_call_changes_nothing", "C14_null_object", "C14_inert_object", "C14_invalid_arguments_ctr", "C14_invalid_arguments_par", "step_ok", "run_ok"])
thm("C15", ["C14"], ["C15_balanced", "C15_single_owner", "C15_all_released", "C15_cleanup", "C15_cleanup_idempotent", "C14_no_fault", "C14_inert_object"])
thm("C16", ["C14"], ["C16_alloc_failure", "C16_init_success", "C16_then_inert", "C14_no_fault"])
thm("C17", ["C14"], ["C17_wiped_before_free", "C17_source_sizes", "SkinnyVerif.Api.factsSizes_wipeOK"])
thm("C02", ["C02", "C10", "C07M"], ["C07_mantis_vec128_block", "C07_mantis_vec128_spec", "C06_mantis_vec128_keystream", "C02_mantis", "C02_swap_modes", "C02_swap_enc_is_dec", "C02_swap_dec_is_enc", "C02_crypt_of_keys", "mantisPieces", "mantisKeys", "C10_mantis_set_key"])
thm("C07", ["C07", "C07V"], ["C07_skinny128", "C07_skinny64", "parallelBlocks_eq_ecb", "ecb_length", "C07_parallel_size",
            "C07_vec128_block", "C07_vec128_spec", "vecEnc4_block", "vecDec4_block",
            "C07_vec256_block", "C07_vec256_spec", "vecEnc8_block", "vecDec8_block",
            "C07_vec64_block", "C07_vec64_spec", "vecEnc8h_block", "vecDec8h_block", "C12_vec_unaligned_paths",
            "C07_mantis_vec128_block", "C07_mantis_vec128_spec", "SkinnyVerif.Lemmas.vecMantis8_lane"])
PROPS["C07"]["modules"] += ["SkinnyVerif.Properties.C07M", "SkinnyVerif.Properties.C07L", "SkinnyVerif.Properties.C07ML"]
PROPS["C07"]["theorems"] += [P + "mantisBatched_eq", P + "C07_mantis_whole_buffer"]
PROPS["C07"]["theorems"] += [P + "parallelBatched_eq_ecb", P + "C07_vec128_whole_buffer", P + "C07_vec256_vec64_whole_buffer", P + "batch_is_ecb", P + "ecb_append"]
PROPS["C07"]["modules"] += ["SkinnyVerif.Properties.C07X"]
PROPS["C07"]["theorems"] += [P + "C07X_exec_is_ecb", P + "exec_batched", P + "exec_enc4_eq", P + "exec_dec4_eq", P + "exec_enc8_eq", P + "exec_dec8_eq", P + "exec_enc8h_eq", P + "exec_dec8h_eq", P + "C07X_mantis_exec", P + "exec_mantis8", P + "exec_batchedM"]
_c07 = PROPS["C07"]
thm("C08", ["C08"], ["C08_no_leak_events", "C08_table_complete"])
thm("C09", ["C08", "C09X"], ["C09_block_functions", "C09_table_complete", "C09_vector_batch_functions", "C09_vector_table_complete", "C09_xor_blocks", "C09_xor_partial", "C09_xor_access", "C11_no_junk_in_loaders"])
PROPS["C09"]["modules"].append("SkinnyVerif.Properties.C11")
# the hand-modelled glue: control-flow / address trace of the CTR loop and extents of the bulk loops (Properties/C08G.lean)
PROPS["C08"]["modules"].append("SkinnyVerif.Properties.C08G")
PROPS["C08"]["theorems"] += [P + "C08_ctr_trace_public", P + "C08_ctr_trace_secret_independent", P + "ctrLoopT_erase"]
PROPS["C09"]["modules"].append("SkinnyVerif.Properties.C08G")
PROPS["C09"]["theorems"] += [P + "C09_ctr_extent", P + "C09_parallel_extent", P + "ctrLoopT_erase"]
thm("C18", ["C18", "C13", "C18I"], ["C18_no_mutable_statics", "C18_census_nonempty", "C18_parallel_crypt_read_only", "C18_mantis_parallel_crypt_read_only", "setVal_comm", "C13_deterministic",
            "callStep_frame", "C18_calls_commute", "C18_interleaving", "C18_interleaving_reachable", "goodW_of_inv"])
thm("C19", ["C19", "C19M", "C06"], ["C19_skinny128", "C19_skinny128_eq_C", "C19_tweaked128", "C19_skinny64", "C19_tweaked64", "C19_mantis8", "C19_mantis8_swap",
            "opsArd128_correct", "opsArd64_correct", "SkinnyVerif.Lemmas.mantisPieces_ard", "SkinnyVerif.Lemmas.mantisKeys_ard", "C05_stream"])
thm("C20", ["C20"], ["C20_ctr_tool", "C20_ctr_tool_roundtrip", "C20_ecb_tool", "C20_increment_tweak", "C20_tweak_of_block", "C20_tweak_tool", "readChunks_flatten"])
thm("C11", ["C11"], ["C11_skinny128", "C11_skinny64", "C11_tweaked128", "C11_no_junk_in_loaders"])
thm("C12", ["C12", "C07V", "C06V"], ["C12_skinny128", "C12_skinny64", "C12_tweaked128", "C12_tweaked64", "C12_vec_unaligned_paths", "C06_vec128_keystream", "C06_vec256_keystream"])
thm("C10", ["C10"], ["C10_skinny128_set_key", "C10_skinny64_set_key", "C10_null_key128", "C10_null_key64", "C10_mantis_set_key"])
