#!/usr/bin/env python3
"""
run_check.py <property> [--tier quick|thorough] [--replay path]

One run = (1) regenerate the Lean generated layer from /repo's working tree, (2) lake build the
modules that carry this property's theorems and audit their axioms, (3) rebuild the library
from /repo in scratch directories and run the correspondence scripts through the C driver and
the compiled Lean model, (4) run the property's auxiliary oracles, (5) if anything broke,
search for a concrete failing input against the executable specification, (6) write evidence.
"""
import argparse, json, os, re, sys, time, traceback
sys.path.insert(0, os.path.dirname(os.path.abspath(__file__)))
import vlib, gen_ops
from vlib import Rng, BuildCfg, DEFAULT_CFG
import props

def norm(line):
    """canonical form of an output line for comparison (heap lines: the C driver also prints nothing extra)"""
    return line.strip()

def header(cfgtag, sizes_line, probes, modelflags="1 1 1 1"):
    return ["cfg %s %s" % (cfgtag, modelflags), sizes_line, "probes %d %d" % probes]

def backend_probes(be):
    return {"generic": (0, 0), "vec128": (1, 0), "vec256": (1, 1)}[be]

def compare(script_lines, outA, outB, ignore_undef=False, heap_prefix=False, strict_badop=False):
    """index of the first script line whose outputs differ (None if equal)"""
    ops = [l for l in script_lines if l.strip() and not l.startswith("#")]
    if any(x.strip() == "bad-op" for x in outA) or any(x.strip() == "bad-op" for x in outB):
        return None if not strict_badop else (0, "bad-op", "bad-op", "script is not well-formed")
    n = max(len(outA), len(outB))
    for i in range(n):
        a = outA[i].strip() if i < len(outA) else "<missing>"
        b = outB[i].strip() if i < len(outB) else "<missing>"
        if ignore_undef and (a == "undef" or b == "undef"): continue
        if heap_prefix and a.startswith("live=") and b.startswith("live="):
            a, b = a.split(" ")[0], b.split(" ")[0]
        if a != b:
            return i, (ops[i] if i < len(ops) else "?"), a, b
    return None

def shrink(lines, nhdr, still_fails, budget=200):
    """delta debugging on the operation lines after the header"""
    hdr, body = lines[:nhdr], lines[nhdr:]
    n = 2
    tries = 0
    while len(body) >= 2 and tries < budget:
        chunk = max(1, len(body) // n)
        reduced = False
        for i in range(0, len(body), chunk):
            cand = body[:i] + body[i + chunk:]
            tries += 1
            if cand and still_fails(hdr + cand):
                body = cand; n = max(n - 1, 2); reduced = True; break
            if tries >= budget: break
        if not reduced:
            if chunk == 1: break
            n = min(n * 2, len(body))
    return hdr + body

class Run:
    def __init__(self, pid, tier, seed):
        self.pid, self.tier, self.seed = pid, tier, seed
        self.t0 = time.time()
        self.violations = []      # (replay path, has_witness, what)
        self.known = []
        self.cov = {"obligations": 0, "discharged": 0, "evaluations": 0, "distinct_nontrivial": 0,
                    "samples": [], "traces_validated_against_impl": 0, "configs": [], "backends": [],
                    "op_distribution": {}, "classes": {}, "broken_obligations": [], "oracles": {}}
        self.libs = {}
        self.distinct = set()
        os.makedirs(os.path.join(vlib.VERIF, "replays"), exist_ok=True)

    def replay_path(self, tag):
        return os.path.join(vlib.VERIF, "replays", "%s-%d-%s.ops" % (self.pid, self.seed, tag))

    def write_replay(self, tag, lines, note):
        p = self.replay_path(tag)
        with open(p, "w") as f:
            f.write("# property %s seed %d tier %s\n" % (self.pid, self.seed, self.tier))
            for ln in note.split("\n"): f.write("# " + ln + "\n")
            f.write("\n".join(lines) + "\n")
        return p

    def lib(self, cfg, sanitize=None):
        key = (cfg.name, tuple(sanitize or ()))
        if key not in self.libs:
            d = vlib.build_lib(cfg, sanitize=sanitize)
            exe = vlib.build_cdrv(d, cfg, sanitize=sanitize)
            self.libs[key] = (d, exe)
        return self.libs[key]

def lean_phase(run, prop, meta_errors):
    """build and audit the theorems of this property; returns list of broken obligations"""
    broken = []
    for e in meta_errors:
        is_probe = "Probes" in str(e.get("lean", ""))
        if is_probe != (run.pid == "C13"): continue      # the probe translator concerns C13 only, the cipher translator everything else
        broken.append("translator: %s: %s" % (e.get("lean"), e.get("error", "")[:200]))
    mods = prop.get("modules", [])
    thms = prop.get("theorems", [])
    ok, failed, log = vlib.lake_build(mods + ["skinny_model", "skinny_spec"]) if mods else vlib.lake_build(["skinny_model", "skinny_spec"])
    run.lake_log = log
    if not ok:
        for m in failed: broken.append("module does not check: " + m)
        for nm in vlib.failing_lemmas(log): broken.append("failing lemma: " + nm)
        if not failed: broken.append("lake build failed: " + log[-400:])
    hits = vlib.source_audit()
    for h in hits: broken.append("forbidden construct: " + h)
    ax = {}
    if thms:
        ax, out = vlib.axiom_audit(thms, mods)
        for t in thms:
            if ax.get(t) is None:
                broken.append("theorem missing or not checked: " + t)
            elif not set(ax[t]) <= vlib.ALLOWED_AXIOMS:
                broken.append("theorem %s depends on axioms %s" % (t, ax[t]))
    run.cov["obligations"] = len(thms) + len(mods)
    run.cov["discharged"] = len([t for t in thms if ax.get(t) is not None and set(ax[t]) <= vlib.ALLOWED_AXIOMS]) + len([m for m in mods if m not in failed and (ok or failed)])
    run.cov["theorems"] = thms
    run.cov["axioms"] = sorted(set(a for t in thms for a in (ax.get(t) or [])))
    run.cov["checker_cmd"] = "cd /verif/lean && lake build " + " ".join(mods) + " && #print axioms on each listed theorem (tools/vlib.py axiom_audit) && source audit for sorry/admit/native_decide/bv_decide/axiom"
    return broken

def main():
    ap = argparse.ArgumentParser()
    ap.add_argument("pid")
    ap.add_argument("--tier", default=os.environ.get("VERIF_TIER", "quick"))
    ap.add_argument("--replay", default=None)
    a = ap.parse_args()
    seed = int(os.environ.get("VERIF_SEED", "1"))
    pid = a.pid
    prop = props.PROPS[pid]
    run = Run(pid, a.tier, seed)
    rng = Rng(seed * 1000003 + int(pid[1:]))
    known = vlib.load_known()

    meta, facts, gen_errors, sizes_line = vlib.regenerate()
    run.meta, run.facts, run.sizes_line = meta, facts, sizes_line
    broken = lean_phase(run, prop, gen_errors)
    # facts-level obligations (sizes, guards, globals, asm operands)
    for msg in prop.get("fact_checks", lambda f, m: [])(facts, meta):
        broken.append("fact: " + msg)
    # hand-modelled code must be the code the model was validated against (tools/shapes.py)
    import shapes
    tie = shapes.compare(facts, pid)
    for msg in tie: broken.append("model tie: " + msg)
    run.cov["obligations"] += 1
    if not tie: run.cov["discharged"] += 1
    run.cov["model_tie"] = {"functions_compared": len([n for n in facts.get("shapes", {}) if pid in shapes.props_for(n) and not shapes.WHOLE.match(n.split("#")[0])]), "changed": tie}
    model, spec = vlib.private_drivers()
    model_ok = bool(model) and bool(spec)
    run.model_exe, run.spec_exe = model, spec
    if not model_ok:
        broken.append("model/spec driver does not build")

    corr_fail = []       # (config, backend, script name, lines, mismatch)
    stats = gen_ops.Stats()
    if a.replay:
        lines = [l.rstrip("\n") for l in open(a.replay) if l.strip() and not l.startswith("#")]
        d, cexe = run.lib(DEFAULT_CFG)
        oc, _, _ = vlib.run_driver(cexe, "\n".join(lines) + "\n")
        om, _, _ = vlib.run_driver(model, "\n".join(lines) + "\n")
        osp, _, _ = vlib.run_driver(spec, "\n".join(lines) + "\n")
        ops = [l for l in lines]
        for i, l in enumerate(ops):
            print("%-60s | impl %s | model %s | spec %s" % (l[:60], (oc[i] if i < len(oc) else "-")[:40], (om[i] if i < len(om) else "-")[:40], (osp[i] if i < len(osp) else "-")[:40]))
        return 0

    if model_ok and prop.get("scripts"):
        cfgs = prop["configs"](a.tier)
        for cfg in cfgs:
            try:
                d, cexe = run.lib(cfg)
            except RuntimeError as ex:
                broken.append("build: " + str(ex)[:300]); continue
            run.cov["configs"].append(cfg.name)
            for be in [b for b in prop["backends"](a.tier) if b in cfg.backends()]:
                if be not in run.cov["backends"]: run.cov["backends"].append(be)
                scripts = prop["scripts"](Rng(rng.next()), a.tier, stats)
                for name, body in scripts:
                    hdr = header(cfg.tag(), sizes_line, backend_probes(be))
                    lines = hdr + body
                    text = "\n".join(lines) + "\n"
                    env = prop.get("env", {})
                    oc, rc, err = vlib.run_driver(cexe, text, env)
                    om, _, _ = vlib.run_driver(model, text)
                    run.cov["evaluations"] += len(body)
                    for l in body:
                        if (".enc" in l or ".dec" in l or "crypt" in l) : run.distinct.add(hash(l))
                    mm = compare(lines, oc, om, strict_badop=True)
                    run.cov["traces_validated_against_impl"] += 1
                    if len(run.cov["samples"]) < 3:
                        run.cov["samples"].append({"config": cfg.name, "backend": be, "script": name, "first_ops": body[:6], "impl_out": oc[3:9]})
                    if mm is not None:
                        corr_fail.append((cfg, be, name, lines, mm, cexe, env))
                        if len(corr_fail) >= 6: break
                if len(corr_fail) >= 6: break
            if len(corr_fail) >= 6: break

    # auxiliary oracles
    for oname, ofn in prop.get("oracles", []):
        try:
            res = ofn(run, a.tier, rng)
        except Exception as ex:
            res = {"ok": False, "broken": "oracle %s crashed: %s" % (oname, ex), "trace": traceback.format_exc()[-800:]}
        run.cov["oracles"][oname] = {k: v for k, v in res.items() if k not in ("witness",)}
        # what the oracle executed counts as evaluations of this run (measured by the oracle itself)
        n_or = 0
        for key in ("cases", "evaluations", "lines_checked", "emulated_cpu_models", "runs", "compared_lines", "scripts", "cases_against_lean_model"):
            if isinstance(res.get(key), int): n_or += res[key]
            elif key == "runs" and isinstance(res.get(key), list): n_or += len(res[key])
        if isinstance(res.get("seeds"), list): n_or += len(res["seeds"]) * int(res.get("rounds", 1))
        run.cov["evaluations"] += n_or
        if isinstance(res.get("distinct_nontrivial"), int): run.oracle_distinct = getattr(run, "oracle_distinct", 0) + res["distinct_nontrivial"]
        if res.get("samples") and len(run.cov["samples"]) < 6:
            run.cov["samples"] += [{"oracle": oname, "case": x} for x in list(res["samples"])[:3]]
        if not res.get("ok", True):
            w = res.get("witness")
            path = run.write_replay("oracle-" + oname, w.get("lines", []) if w else [], "oracle %s: %s" % (oname, res.get("what", res.get("broken", ""))))
            run.violations.append((path, bool(w), "oracle %s: %s" % (oname, res.get("what", res.get("broken", "")))))

    # ---- decide
    nhdr = 3
    for (cfg, be, name, lines, mm, cexe, env) in corr_fail:
        i, opline, a_, b_ = mm
        def fails_spec(ls, base_undef=[None]):
            oc, rc, _ = vlib.run_driver(cexe, "\n".join(ls) + "\n", env)
            osp, _, _ = vlib.run_driver(spec, "\n".join(ls) + "\n")
            und = sum(1 for x in osp if x.strip() == "undef")
            if base_undef[0] is None: base_undef[0] = und
            if rc != 0 or und > base_undef[0]: return False     # not a well-formed use of the API
            return compare(ls, oc, osp, ignore_undef=True, heap_prefix=True) is not None
        def fails_model(ls):
            oc, rc, _ = vlib.run_driver(cexe, "\n".join(ls) + "\n", env)
            om, _, _ = vlib.run_driver(model, "\n".join(ls) + "\n")
            if rc != 0: return False
            return compare(ls, oc, om) is not None
        prefix = lines[:nhdr + (i - nhdr) + 1] if i >= nhdr else lines
        ivf = prop.get("impl_violation")       # a property predicate on the implementation's own output lines
        def fails_pred(ls):
            oc, rc, _ = vlib.run_driver(cexe, "\n".join(ls) + "\n", env)
            return rc == 0 and any(ivf(x) for x in oc)
        def fails_crash(ls):
            # the implementation dies (signal / sanitizer abort) on an operation for which the object model - the
            # contract the C14-C17 theorems are about - defines an ordinary result
            oc, rc, _ = vlib.run_driver(cexe, "\n".join(ls) + "\n", env)
            if rc == 0: return False
            om, _, _ = vlib.run_driver(model, "\n".join(ls) + "\n")
            return len(oc) < len(om) and om[len(oc)].strip() not in ("fault", "undef", "bad-op") and not any(x.strip() == "bad-op" for x in om)
        if fails_crash(prefix):
            small = shrink(prefix, nhdr, fails_crash)
            oc, rc, err = vlib.run_driver(cexe, "\n".join(small) + "\n", env)
            om, _, _ = vlib.run_driver(model, "\n".join(small) + "\n")
            opl = [l for l in small if l.strip() and not l.startswith("#")]
            what = "implementation crashes (exit status %d) where the API contract defines a result: config=%s backend=%s op=%r contract=%s %s" % (
                rc, cfg.name, be, (opl[len(oc)] if len(oc) < len(opl) else "?")[:80], om[len(oc)].strip()[:40], (err or "").strip().split("\n")[0][:120])
            path = run.write_replay("%s-%s-%s" % (cfg.name, be, name), small, what)
            run.violations.append((path, True, what))
        elif ivf and fails_pred(prefix):
            small = shrink(prefix, nhdr, fails_pred)
            oc, _, _ = vlib.run_driver(cexe, "\n".join(small) + "\n", env)
            msg = next(ivf(x) for x in oc if ivf(x))
            what = "%s: config=%s backend=%s impl output %r" % (msg, cfg.name, be, next(x for x in oc if ivf(x))[:120])
            path = run.write_replay("%s-%s-%s" % (cfg.name, be, name), small, what)
            run.violations.append((path, True, what))
        elif fails_spec(prefix) or fails_spec(lines):
            # (the first line on which model and implementation differ need not be the one on which the implementation
            # leaves the specification - e.g. an advertised size differs first, the data only later: look at the whole script)
            small = shrink(prefix if fails_spec(prefix) else lines, nhdr, fails_spec)
            oc, _, _ = vlib.run_driver(cexe, "\n".join(small) + "\n", env)
            osp, _, _ = vlib.run_driver(spec, "\n".join(small) + "\n")
            mm2 = compare(small, oc, osp, ignore_undef=True, heap_prefix=True)
            what = "implementation differs from the specification: config=%s backend=%s op=%r impl=%s spec=%s" % (cfg.name, be, mm2[1][:80], mm2[2][:60], mm2[3][:60])
            path = run.write_replay("%s-%s-%s" % (cfg.name, be, name), small, what)
            run.violations.append((path, True, what))
        else:
            small = shrink(prefix, nhdr, fails_model)
            what = "correspondence broken (model vs implementation) but the implementation agrees with the specification: config=%s backend=%s op=%r impl=%s model=%s" % (cfg.name, be, opline[:80], a_[:60], b_[:60])
            path = run.write_replay("%s-%s-%s-corr" % (cfg.name, be, name), small, what)
            run.violations.append((path, False, what))

    if broken:
        # proof obligations no longer check: search for a concrete failing input against the specification
        run.cov["broken_obligations"] = broken
        witness = None
        if model_ok and prop.get("scripts"):
            try:
                budget = 4 if a.tier == "quick" else 30
                t_search = time.time()
                t_budget = 180 if a.tier == "quick" else 1500      # seconds spent looking for a failing input
                cfgs_s = prop["configs"]("thorough")
                # start with the build configurations that the broken obligations speak about
                btxt = " ".join(broken)
                def relevance(c):
                    sc = 0
                    if re.search(r"U0|_u0", btxt) and not c.unaligned and c.vec128: sc += 4
                    if re.search(r"_32(le|be)?(_|\b)|w32", btxt) and not c.w64: sc += 2
                    if re.search(r"_(64|32)be", btxt) and not c.le: sc += 2
                    if re.search(r"Vec|vec(128|256)", btxt) and c.vec128: sc += 1
                    return -sc
                cfgs_s = sorted(cfgs_s, key=relevance)
                for k in range(budget):
                    if time.time() - t_search > t_budget: break
                    for cfg_s in cfgs_s:
                        if time.time() - t_search > t_budget: break
                        d, cexe = run.lib(cfg_s)
                        for be in [b for b in prop["backends"]("thorough") if b in cfg_s.backends()]:
                            for name, body in prop["scripts"](Rng(rng.next()), "thorough" if k else a.tier, stats):
                                if time.time() - t_search > t_budget: break
                                lines = header(cfg_s.tag(), sizes_line, backend_probes(be)) + body
                                oc, _, _ = vlib.run_driver(cexe, "\n".join(lines) + "\n", prop.get("env", {}))
                                osp, _, _ = vlib.run_driver(spec, "\n".join(lines) + "\n")
                                mm = compare(lines, oc, osp, ignore_undef=True, heap_prefix=True)
                                if mm is not None:
                                    def fs(ls, base_undef=[None], cexe=cexe):
                                        o1, rc1, _ = vlib.run_driver(cexe, "\n".join(ls) + "\n", prop.get("env", {}))
                                        o2, _, _ = vlib.run_driver(spec, "\n".join(ls) + "\n")
                                        und = sum(1 for x in o2 if x.strip() == "undef")
                                        if base_undef[0] is None: base_undef[0] = und
                                        if rc1 != 0 or und > base_undef[0]: return False
                                        return compare(ls, o1, o2, ignore_undef=True, heap_prefix=True) is not None
                                    small = shrink(lines[:mm[0] + 1], nhdr, fs)
                                    witness = (small, "config=%s backend=%s op=%r impl=%s spec=%s" % (cfg_s.name, be, mm[1][:80], mm[2][:60], mm[3][:60]))
                                    break
                            if witness: break
                        if witness: break
                    if witness: break
            except RuntimeError as ex:
                pass
        if witness is None and prop.get("proof_search") and not any(v[1] for v in run.violations):
            try:
                r = prop["proof_search"](run, a.tier, rng)
                if r: witness = (r["lines"], r["what"])
            except Exception as ex:
                run.cov.setdefault("notes", []).append("proof_search crashed: %s" % ex)
        note = "broken proof obligations:\n" + "\n".join(broken[:20])
        if witness:
            path = run.write_replay("obligation", witness[0], note + "\nwitness: " + witness[1])
            run.violations.append((path, True, "proof obligation broken and a failing input found: " + witness[1]))
        elif not any(v[1] for v in run.violations):
            path = run.write_replay("obligation", [], note)
            run.violations.append((path, False, "proof obligation(s) no longer check: " + "; ".join(broken[:3])))

    # ---- known findings
    out_viol = []
    for (path, has_w, what) in run.violations:
        matched = None
        for kf in known.get("findings", []):
            if kf["property"] == pid and re.search(kf["match"], what + "\n" + open(path).read()):
                matched = kf; break
        if matched:
            print("KNOWN-FINDING: property=%s %s" % (pid, matched["what"]))
            run.known.append(matched["id"])
        else:
            out_viol.append((path, has_w, what))
    run.cov["distinct_nontrivial"] = len(run.distinct) + getattr(run, "oracle_distinct", 0)
    if not run.cov["samples"]:
        run.cov["samples"] = [{"obligation": t} for t in run.cov.get("theorems", [])[:4]]
    run.cov["rule"] = prop.get("rule", "scripts from tools/gen_ops.py; a case is one data-processing operation (enc/dec/crypt/encrypt) with its arguments; distinct = distinct operation lines")
    run.cov["op_distribution"] = stats.ops
    run.cov["classes"] = stats.classes
    run.cov["trusted_base"] = props.TRUSTED_BASE + prop.get("trusted_extra", [])
    run.cov["known_findings_hit"] = run.known
    run.cov["explanation"] = prop.get("explanation", "")
    vlib.write_evidence(pid, a.tier, seed, run.cov, time.time() - run.t0, len(out_viol), props.ASSUMPTIONS + prop.get("assumptions", []))
    for (path, has_w, what) in out_viol:
        print("# " + what)
        print("VIOLATION property=%s replay=%s%s" % (pid, path, "" if has_w else " no-failing-input-found"))
    if not out_viol:
        print("OK property=%s tier=%s obligations=%d/%d evaluations=%d configs=%d wall=%.1fs" % (pid, a.tier, run.cov["discharged"], run.cov["obligations"], run.cov["evaluations"], len(run.cov["configs"]), time.time() - run.t0))
    return 1 if out_viol else 0

if __name__ == "__main__":
    sys.exit(main())
