#!/usr/bin/env python3
"""
shapes.py -- the tie for hand-modelled code.  The Lean model of the glue (argument checks, loop
structure, buffering, object handling) and of the vector back ends is written by hand and validated
against the implementation by the correspondence check.  `golden_shapes.json` records a location-
and comment-independent hash of the AST of every such function (and of the Arduino / example
sources) at the time the model was last validated.  A function whose hash differs has changed since
then: the model is no longer known to describe it, which is a broken obligation for every property
whose model depends on that function; the check then searches for a failing input at full depth.

    python3 tools/shapes.py --update      re-record the hashes (only after re-validating the model)
"""
import json, os, re, sys
HERE = os.path.dirname(os.path.abspath(__file__))
GOLD = os.path.join(HERE, "golden_shapes.json")

# functions translated as a whole by tools/c2lean.py / tools/probe2lean.py: a change is seen by the translator
WHOLE = re.compile(r"^(skinny(128|64)_(LFSR[23](_\w+)?|sbox(_\w+)?|inv_sbox(_\w+)?|permute_tk(_\w+)?|inc_counter|rotate_right)|"
                   r"(skinny128_sbox_(four|two)|skinny128_rotate_right)@skinny128-ctr-vec(128|256)\.c|(skinny64_sbox|skinny64_rotate_right)@skinny64-ctr-vec128\.c|"
                   r"mantis_(sbox|update_tweak|update_tweak_inverse|shift_rows|shift_rows_inverse|mix_columns|unpack_block|unpack_rotated_block|swap_modes)|"
                   r"_skinny_has_vec(128|256)|(skinny(128|64)|mantis)_ctr_increment(@.*)?|skinny128_xor|skinny64_xor|skinny_xor|"
                   r"(skinny128_(inv_)?sbox_four|skinny64_(inv_)?sbox|skinny(128|64)_rotate_right)@skinny(128|64)-parallel-vec(128|256)\.c|"
                   r"(skinny128_sbox_(four|two)|skinny128_rotate_right)@skinny128-ctr-vec(128|256)\.c|(skinny64_sbox|skinny64_rotate_right)@skinny64-ctr-vec128\.c|"
                   r"mantis_(sbox|update_tweak|update_tweak_inverse|shift_rows|shift_rows_inverse|mix_columns)@mantis-(parallel|ctr)-vec128\.c)$")

# which properties depend on which hand-modelled functions
RULES = [
    (r"^skinny(128|64)_(set_key|set_tweaked_key|set_key_inner|set_tk[123])$", ["C01", "C03", "C10", "C11", "C12"]),
    (r"^skinny(128|64)_(set_tweak|xor_tk1)$", ["C04", "C14"]),
    (r"^skinny(128|64)_ecb_(encrypt|decrypt)$", ["C01", "C03", "C09", "C12"]),
    (r"^mantis_(set_key|set_tweak|ecb_crypt|ecb_crypt_tweaked)$", ["C02", "C03"]),
    (r"^(skinny(128|64)|mantis)_ctr_(encrypt|set_counter|set_key|set_tweaked_key|set_tweak|def_\w+|vec(128|256)_\w+|increment)$", ["C05", "C06", "C14"]),
    (r"^(skinny(128|64)|mantis)_ctr_(init|cleanup|def_init|def_cleanup|vec(128|256)_init|vec(128|256)_cleanup)$", ["C13", "C14", "C15", "C16", "C17"]),
    (r"^(skinny(128|64)|mantis)_ctr_vec(128|256)_\w+$", ["C08", "C09"]),
    (r"^(_?skinny(128|64)|_?mantis)_parallel_\w+$", ["C03", "C07", "C14"]),
    (r"^(skinny(128|64)_parallel_ecb_(encrypt|decrypt)|mantis_parallel_ecb_crypt)$", ["C18"]),
    (r"^(skinny(128|64)_ecb_(encrypt|decrypt)|mantis_ecb_crypt|mantis_ecb_crypt_tweaked)$", ["C18"]),
    (r"^(skinny(128|64)|mantis)_parallel_ecb_(init|cleanup)$", ["C11", "C13", "C15", "C16", "C17"]),
    (r"^(skinny(128|64)|mantis)_ctr_(init|def_init|vec(128|256)_init)$", ["C11"]),
    (r"^_?(skinny(128|64)|mantis)_parallel_(encrypt|decrypt|crypt)_vec(128|256)$", ["C08", "C09"]),
    (r"^.*@.*-ctr-vec(128|256)\.c$", ["C05", "C06", "C08", "C09", "C12"]),
    (r"^.*@.*-parallel-vec(128|256)\.c$", ["C03", "C07", "C08", "C09", "C12", "C18"]),
    (r"^(skinny_to_vec\w+)$", ["C06", "C07"]),
    (r"^skinny_calloc$", ["C15", "C16"]),
    (r"^skinny_cleanse$", ["C17"]),
    (r"^(skinny128_xor|skinny64_xor|skinny_xor)$", ["C05", "C09"]),
]
TEXT_RULES = [(r"^arduino/", ["C19"]), (r"^examples/", ["C20"])]

def props_for(name):
    name = name.split("#")[0]          # the same function under another preprocessor configuration
    out = []
    for pat, ps in RULES:
        if re.match(pat, name): out += ps
    return sorted(set(out))

def compare(facts, pid):
    """broken obligations for property `pid`"""
    if not os.path.exists(GOLD): return ["golden_shapes.json is missing"]
    gold = json.load(open(GOLD))
    out = []
    cur = facts.get("shapes", {})
    for name in sorted(set(gold["shapes"]) | set(cur)):
        if WHOLE.match(name.split("#")[0]): continue
        if pid not in props_for(name): continue
        g, c = gold["shapes"].get(name), cur.get(name)
        if g != c:
            out.append("hand-modelled function %s %s since the model was validated" % (name, "changed" if g and c else ("was removed" if g else "is new")))
    curt = facts.get("text_shapes", {})
    for path in sorted(set(gold["text_shapes"]) | set(curt)):
        for pat, ps in TEXT_RULES:
            if re.match(pat, path) and pid in ps and gold["text_shapes"].get(path) != curt.get(path):
                out.append("source file %s changed since the model was validated" % path)
    return out

def main():
    sys.path.insert(0, HERE)
    import facts as F
    repo = "/repo"
    if "--update" in sys.argv:
        f = F.collect(repo)
        json.dump({"shapes": f["shapes"], "text_shapes": f["text_shapes"]}, open(GOLD, "w"), indent=0, sort_keys=True)
        print("recorded", len(f["shapes"]), "functions,", len(f["text_shapes"]), "files")
        un = [n for n in f["shapes"] if not WHOLE.match(n.split("#")[0]) and not props_for(n)]
        print("functions without a property rule:", un)
        return 0
    f = F.collect(repo)
    for pid in ["C%02d" % i for i in range(1, 21)]:
        for m in compare(f, pid): print(pid, m)
    return 0

if __name__ == "__main__":
    sys.exit(main())
