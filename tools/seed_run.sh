#!/bin/sh
# seed_run.sh <verif-dir> <seed-name> <prop> [<prop>...]
# apply /verif/seeded/<seed-name>/patch.diff to /repo, run the quick (and on a miss the thorough) check of
# each listed property from <verif-dir>, undo the change.  Output: <verif-dir>/seedruns/<seed-name>.<prop>.log
V=$1; S=$2; shift 2
mkdir -p $V/seedruns
git -C /repo checkout -q -- . && git -C /repo apply /verif/seeded/$S/patch.diff || { echo "cannot apply $S"; exit 2; }
for P in "$@"; do
  ( cd $V && VERIF_SEED=1 ./check $P --tier quick > seedruns/$S.$P.quick.log 2>&1 ); rc=$?
  line=$(grep -h "^VIOLATION\|^OK\|^KNOWN" $V/seedruns/$S.$P.quick.log | head -2 | tr '\n' ' ')
  echo "$S $P quick rc=$rc $line"
  if [ $rc -eq 0 ]; then
    ( cd $V && VERIF_SEED=1 ./check $P --tier thorough > seedruns/$S.$P.thorough.log 2>&1 ); rc=$?
    line=$(grep -h "^VIOLATION\|^OK\|^KNOWN" $V/seedruns/$S.$P.thorough.log | head -2 | tr '\n' ' ')
    echo "$S $P thorough rc=$rc $line"
  fi
done
git -C /repo checkout -q -- .
