#!/usr/bin/env python3
"""
c2lean.py -- translator from the C sources of rweather/skinny-c to Lean 4 definitions.

It is a small symbolic executor over the typed AST that clang-14 prints with
`-Xclang -ast-dump=json`.  For each function named in tools/gen_manifest.json it
executes the body on symbolic inputs (BitVec-valued), following every implicit cast that
clang inserted (so integer promotions are C's, not re-derived), unrolling loops whose
conditions are concrete, inlining calls to other functions of the same translation unit,
and modelling memory objects (byte arrays, the cell unions, vectors) as little-endian
byte images.  Every C assignment becomes one small Lean definition `f.eK` ("stage") and
the function itself a `let` chain over the stages; this keeps proofs about deep bit-sliced
functions (S-boxes) linear in the number of statements.

For functions marked with a lane width the executor is run a second time with every
integer type narrowed to the lane width (constants truncated): the result `f_lane` is the
candidate per-cell function; that it really describes `f` lane by lane is *proved* in
Lean (Lemmas/Lanes*.lean), so this second run is not trusted.

Nothing is guessed: an unsupported construct in a required function is a hard error.
"""
import json, os, re, subprocess, sys, hashlib

CLANG = os.environ.get("VERIF_CLANG", "clang-14")

# --------------------------------------------------------------------------- types

class CT:  # C type
    pass

class TInt(CT):
    def __init__(s, w, signed): s.w, s.signed = w, signed
    def __repr__(s): return ("i" if s.signed else "u") + str(s.w)
    def size(s): return s.w // 8
class TBool(CT):
    def size(s): return 1
class TVoid(CT):
    def size(s): return 1
class TPtr(CT):
    def __init__(s, to): s.to = to
    def __repr__(s): return "ptr(%r)" % (s.to,)
    def size(s): return 8
class TArr(CT):
    def __init__(s, el, n): s.el, s.n = el, n
    def __repr__(s): return "arr(%r,%d)" % (s.el, s.n)
    def size(s): return s.el.size() * s.n
class TVec(CT):
    # lane-generic translation: a vector *is* the element of one lane, also for the layout of the structs,
    # unions and arrays that contain it (set per manifest entry by translate_entry)
    GENERIC = False
    def __init__(s, el, n): s.el, s.n = el, n
    def __repr__(s): return "vec(%r,%d)" % (s.el, s.n)
    def size(s): return s.el.size() * (1 if TVec.GENERIC else s.n)
class TRec(CT):
    def __init__(s, kind, fields, name=""): s.kind, s.fields, s.name = kind, fields, name  # fields: list (name, CT)
    def __repr__(s): return "%s %s" % (s.kind, s.name)
    def align(s): return max([_align(t) for _, t in s.fields] or [1])
    def layout(s):
        off = 0; out = {}
        for n, t in s.fields:
            a = _align(t)
            if s.kind == "union":
                out[n] = (0, t)
            else:
                off = (off + a - 1) // a * a
                out[n] = (off, t); off += t.size()
        return out
    def size(s):
        a = s.align()
        if s.kind == "union":
            m = max(t.size() for _, t in s.fields)
        else:
            lay = s.layout(); m = 0
            for n, (o, t) in lay.items(): m = max(m, o + t.size())
        return (m + a - 1) // a * a
class TFunc(CT):
    def size(s): return 1

def _align(t):
    if isinstance(t, TInt): return t.w // 8
    if isinstance(t, TPtr): return 8
    if isinstance(t, TArr): return _align(t.el)
    if isinstance(t, TVec): return t.size()
    if isinstance(t, TRec): return t.align()
    return 1

BUILTIN = {
    "char": TInt(8, True), "signed char": TInt(8, True), "unsigned char": TInt(8, False),
    "short": TInt(16, True), "unsigned short": TInt(16, False),
    "int": TInt(32, True), "unsigned int": TInt(32, False), "unsigned": TInt(32, False),
    "long": TInt(64, True), "unsigned long": TInt(64, False),
    "long long": TInt(64, True), "unsigned long long": TInt(64, False),
    "_Bool": TInt(8, False), "void": TVoid(),
    "__int128": TInt(128, True), "unsigned __int128": TInt(128, False),
}

class VecL(list):
    """explicit lanes of a vector value (element expressions, lane 0 first)"""
    pass

class TranslateError(Exception):
    pass

LEAF_TEXT = {}       # lean name -> generated text of a leaf (as translated under its own flags)
LEAF_EQ_CACHE = {}

# --------------------------------------------------------------------------- translation unit

class TU:
    def __init__(self, path, flags, cxx=False):
        self.path, self.flags = path, flags
        self.userflags = []
        self.cxx = cxx
        cmd = [CLANG + ("" if not cxx else ""), "-fsyntax-only", "-Xclang", "-ast-dump=json"] + flags + [path]
        if cxx:
            cmd = ["clang++-14" if CLANG == "clang-14" else CLANG, "-x", "c++", "-fsyntax-only", "-Xclang", "-ast-dump=json"] + flags + [path]
        p = subprocess.run(cmd, capture_output=True, text=True)
        if p.returncode != 0:
            raise TranslateError("clang failed on %s %s:\n%s" % (path, flags, p.stderr[-2000:]))
        self.ast = json.loads(p.stdout)
        self.funcs, self.typedefs, self.records, self.globals = {}, {}, {}, {}
        self.recnames = {}
        self._index(self.ast)

    def _index(self, node):
        for n in node.get("inner", []):
            k = n.get("kind")
            if k == "FunctionDecl":
                if any(c.get("kind") == "CompoundStmt" for c in n.get("inner", [])):
                    self.funcs[n["name"]] = n
                else:
                    self.funcs.setdefault(n["name"], n)
            elif k == "TypedefDecl":
                self.typedefs[n["name"]] = n
            elif k == "RecordDecl":
                self.records[n["id"]] = n
                if n.get("name"):
                    self.recnames[n["name"]] = n
            elif k == "VarDecl":
                self.globals[n["name"]] = n
            elif k in ("LinkageSpecDecl", "NamespaceDecl"):
                self._index(n)
            elif k == "CXXRecordDecl":
                self.classes = getattr(self, "classes", {})
                if n.get("name"): self.classes[n["id"]] = n["name"]
                if n.get("completeDefinition") or any(c.get("kind") == "FieldDecl" for c in n.get("inner", [])):
                    self.records[n["id"]] = n
                    if n.get("name"): self.recnames[n["name"]] = n
                # methods defined inside the class body
                for c in n.get("inner", []):
                    if c.get("kind") == "CXXMethodDecl" and any(x.get("kind") == "CompoundStmt" for x in c.get("inner", [])):
                        self.funcs[n.get("name", "?") + "::" + c["name"]] = c
            elif k == "CXXMethodDecl":
                cls = getattr(self, "classes", {}).get(n.get("parentDeclContextId"), "?")
                if any(c.get("kind") == "CompoundStmt" for c in n.get("inner", [])):
                    self.funcs[cls + "::" + n["name"]] = n

    # ---- type resolution from qualType strings
    def rec_type(self, rd):
        fields = []
        for c in rd.get("inner", []):
            if c.get("kind") == "FieldDecl":
                fields.append((c["name"], self.ctype(c["type"])))
        return TRec(rd.get("tagUsed", "struct"), fields, rd.get("name", ""))

    def ctype(self, tobj):
        if isinstance(tobj, dict):
            s = tobj.get("qualType")
        else:
            s = tobj
        return self.parse_type(s)

    def parse_type(self, s):
        s = s.strip()
        # function pointer / function types
        if "(" in s and ")" in s and not s.startswith("__attribute__"):
            if re.search(r"\(\*+\)", s):
                return TPtr(TFunc())
            if "ext_vector_type" not in s and "vector_size" not in s:
                return TFunc()
        m = re.match(r"^(.*\S)\s*__attribute__\(\(ext_vector_type\((\d+)\)\)\)$", s)
        if m:
            return TVec(self.parse_type(m.group(1)), int(m.group(2)))
        m = re.match(r"^__attribute__\(\(__vector_size__\((\d+) \* sizeof\((.*)\)\)\)\)\s*(.*)$", s)
        if m:
            return TVec(self.parse_type(m.group(2)), int(m.group(1)))
        m = re.match(r"^(.*)\[(\d+)\]$", s)
        if m:
            # arrays: innermost dimension is last in the string "T[a][b]" -> arr(arr(T,b),a)
            base = m.group(1).strip(); n = int(m.group(2))
            m2 = re.match(r"^(.*?)((\[\d+\])+)$", s)
            base = m2.group(1).strip()
            dims = [int(x) for x in re.findall(r"\[(\d+)\]", m2.group(2))]
            t = self.parse_type(base)
            for d in reversed(dims):
                t = TArr(t, d)
            return t
        if s.endswith("*"):
            return TPtr(self.parse_type(s[:-1]))
        s = re.sub(r"\b(const|volatile|restrict|__restrict)\b", "", s).strip()
        s = re.sub(r"\s+", " ", s)
        if s.endswith("*"):
            return TPtr(self.parse_type(s[:-1]))
        if s in BUILTIN:
            return BUILTIN[s]
        if s == "bool":
            return TInt(8, False)
        for pre in ("union ", "struct ", "class "):
            if s.startswith(pre):
                nm = s[len(pre):]
                if nm in self.typedefs:
                    return self.parse_typedef(nm)
                if nm in self.recnames:
                    return self.rec_type(self.recnames[nm])
                raise TranslateError("unknown record " + s)
        if s in self.typedefs:
            return self.parse_typedef(s)
        if s in self.recnames:
            return self.rec_type(self.recnames[s])
        raise TranslateError("cannot parse type %r" % s)

    def parse_typedef(self, nm):
        td = self.typedefs[nm]
        for c in td.get("inner", []):
            otd = c.get("ownedTagDecl")
            if otd and otd["id"] in self.records:
                return self.rec_type(self.records[otd["id"]])
            # RecordType child
            for cc in c.get("inner", []):
                d = cc.get("decl")
                if d and d.get("id") in self.records:
                    return self.rec_type(self.records[d["id"]])
            d = c.get("decl")
            if d and d.get("id") in self.records:
                return self.rec_type(self.records[d["id"]])
        q = td["type"]["qualType"]
        if q == nm:
            raise TranslateError("typedef loop " + nm)
        return self.parse_type(q)

# --------------------------------------------------------------------------- symbolic values

class E:
    """Expression of BitVec type `w` (w=0 used for Bool)."""
    __slots__ = ("op", "args", "w", "val", "name")
    def __init__(s, op, args, w, val=None, name=None):
        s.op, s.args, s.w, s.val, s.name = op, args, w, val, name
    def is_const(s): return s.op == "const"

def const(v, w): return E("const", [], w, val=v & ((1 << w) - 1))
def var(name, w): return E("var", [], w, name=name)

def tosigned(v, w): return v - (1 << w) if v >> (w - 1) else v

def mk(op, args, w, extra=None):
    """smart constructor with constant folding"""
    if all(a.is_const() for a in args):
        vs = [a.val for a in args]
        m = (1 << w) - 1
        if op == "and": return const(vs[0] & vs[1], w)
        if op == "or": return const(vs[0] | vs[1], w)
        if op == "xor": return const(vs[0] ^ vs[1], w)
        if op == "not": return const(~vs[0], w)
        if op == "add": return const(vs[0] + vs[1], w)
        if op == "sub": return const(vs[0] - vs[1], w)
        if op == "mul": return const(vs[0] * vs[1], w)
        if op == "neg": return const(-vs[0], w)
        if op == "shl": return const(vs[0] << extra, w) if extra < w else const(0, w)
        if op == "lshr": return const(vs[0] >> extra, w)
        if op == "ashr": return const(tosigned(vs[0], args[0].w) >> extra, w)
        if op == "zext" or op == "trunc": return const(vs[0], w)
        if op == "sext": return const(tosigned(vs[0], args[0].w), w)
        if op == "extract": return const(vs[0] >> extra, w)
    if op in ("zext", "trunc", "sext") and args[0].w == w:
        return args[0]
    if op == "extract" and extra == 0 and args[0].w == w:
        return args[0]
    if op == "extract" and args[0].op == "extract":
        return mk("extract", [args[0].args[0]], w, extra + args[0].val)
    if op == "ashr" and args[0].op == "zext" and args[0].args[0].w < args[0].w:
        return mk("lshr", args, w, extra)
    if op in ("shl", "lshr", "ashr") and extra == 0:
        return args[0]
    e = E(op, args, w)
    e.val = extra
    return e

def render(e):
    o = e.op
    if o == "const": return "0x%x#%d" % (e.val, e.w)
    if o == "var": return e.name
    a = [render(x) for x in e.args]
    if o == "and": return "(%s &&& %s)" % (a[0], a[1])
    if o == "or": return "(%s ||| %s)" % (a[0], a[1])
    if o == "xor": return "(%s ^^^ %s)" % (a[0], a[1])
    if o == "not": return "(~~~%s)" % a[0]
    if o == "add": return "(%s + %s)" % (a[0], a[1])
    if o == "sub": return "(%s - %s)" % (a[0], a[1])
    if o == "mul": return "(%s * %s)" % (a[0], a[1])
    if o == "neg": return "(-%s)" % a[0]
    if o == "shl": return "(%s <<< %d)" % (a[0], e.val)
    if o == "lshr": return "(%s >>> %d)" % (a[0], e.val)
    if o == "ashr": return "(BitVec.sshiftRight %s %d)" % (a[0], e.val)
    if o in ("zext", "trunc"): return "(BitVec.setWidth %d %s)" % (e.w, a[0])
    if o == "sext": return "(BitVec.signExtend %d %s)" % (e.w, a[0])
    if o == "extract": return "(BitVec.extractLsb' %d %d %s)" % (e.val, e.w, a[0])
    if o == "ite": return "(bif (%s != 0x0#%d) then %s else %s)" % (a[0], e.args[0].w, a[1], a[2])
    if o == "lookup":  # args: index ; val = (table name, elem width, length)
        return "(%s.getD (%s).toNat 0x0#%d)" % (e.val[0], a[0], e.w)
    if o == "b2bv":  # boolean expression string as 0/1
        return "(bif %s then 0x1#%d else 0x0#%d)" % (a[0], e.w, e.w)
    if o == "call":
        return "(%s %s)" % (e.val, " ".join(a)) if a else e.val
    if o == "proj":   # val = (index, arity)
        i, n = e.val
        return "(%s)%s" % (a[0], ".2" * i + (".1" if i < n - 1 else ""))
    if o == "cmp":
        return "(decide (%s %s %s))" % (a[0], e.val, a[1])
    raise TranslateError("render: " + o)

def free_vars(e, acc):
    if e.op == "var":
        if e.name not in acc: acc[e.name] = e.w
    for x in e.args: free_vars(x, acc)
    return acc

class Val:
    """C value: typed expression, or pointer."""
    def __init__(s, ct, e=None, ptr=None):
        s.ct, s.e, s.ptr = ct, e, ptr   # ptr = (obj, byte offset)

class Obj:
    """memory object as list of segments (off, nbytes, E|None)"""
    def __init__(s, name, size, init=None):
        s.name, s.size = name, size
        s.segs = [(0, size, init)]
        s.written = False
        s.reads, s.writes = [], []
        s.junk = None          # E var standing for the prior (uninitialised) contents
        s.junk_reads = []
    def read(s, off, n, W):
        """W: function mapping bit width of n bytes -> model width (lane mode)"""
        if off < 0 or off + n > s.size:
            raise TranslateError("out-of-bounds read of %s at %d+%d (size %d)" % (s.name, off, n, s.size))
        pieces = []
        for (o, m, e) in s.segs:
            lo, hi = max(o, off), min(o + m, off + n)
            if lo < hi:
                if e is None:
                    if s.junk is None:
                        raise TranslateError("read of uninitialised bytes %d..%d of %s" % (lo, hi, s.name))
                    e = mk("extract", [s.junk], 8 * m, 8 * o)
                    s.junk_reads.append((lo, hi))
                pieces.append((lo - off, hi - lo, mk("extract", [e], 8 * (hi - lo), 8 * (lo - o))))
        w = 8 * n
        if len(pieces) == 1:
            return pieces[0][2]
        acc = None
        for (po, pn, pe) in pieces:
            t = mk("shl", [mk("zext", [pe], w)], w, 8 * po)
            acc = t if acc is None else mk("or", [acc, t], w)
        return acc
    def write(s, off, n, e):
        if off < 0 or off + n > s.size:
            raise TranslateError("out-of-bounds write of %s at %d+%d (size %d)" % (s.name, off, n, s.size))
        new = []
        for (o, m, old) in s.segs:
            if o + m <= off or o >= off + n:
                new.append((o, m, old)); continue
            if o < off:
                new.append((o, off - o, None if old is None else mk("extract", [old], 8 * (off - o), 0)))
            if o + m > off + n:
                k = off + n - o
                new.append((off + n, o + m - off - n, None if old is None else mk("extract", [old], 8 * (o + m - off - n), 8 * k)))
        new.append((off, n, e))
        new.sort(key=lambda t: t[0])
        s.segs = new
        s.written = True
    def image(s):
        return s.read(0, s.size, None)

# --------------------------------------------------------------------------- executor

class Ret(Exception):
    def __init__(s, v): s.v = v
class Brk(Exception): pass
class Cont(Exception): pass

class Exec:
    def __init__(self, tu, fname, leanname, lane=None, max_steps=200000):
        self.tu, self.fname, self.leanname, self.lane = tu, fname, leanname, lane
        self.stages = []     # (stage name, [(arg, w)], w, expr string)
        self.lets = []       # (let name, stage name, [args])
        self.counter = 0
        self.leak = []       # leak events: rendered expressions
        self.io = []         # (kind, obj, off, n) program-order accesses to parameter objects
        self.steps = 0
        self.max_steps = max_steps
        self.param_objs = {}
        self.registry = {}   # C function name -> manifest entries callable in this TU configuration
        self.sigs = {}       # lean name -> output signature of already translated leaves
        self.elem_objs = {}  # objects standing for array elements at a symbolic index (pieces only)
        self.piece_mode = False
        self.call_args = []
        self.local_objs = []

    # width mapping (lane mode narrows every integer type)
    def W(self, w):
        if self.lane is not None and w > self.lane:
            return self.lane
        return w

    def fresh(self, e, hint="v"):
        """bind expression e to a new let-name via a stage definition; returns var E"""
        if isinstance(e, VecL):
            return VecL([self.fresh(x, hint) for x in e])
        if e.op in ("var", "const"):
            return e
        self.counter += 1
        k = self.counter
        sname = "%s.e%d" % (self.leanname, k)
        fv = free_vars(e, {})
        args = sorted(fv.items(), key=lambda t: t[0])
        self.stages.append((sname, args, e.w, render(e)))
        lname = "z%s%d" % (hint, k)
        self.lets.append((lname, sname, [a for a, _ in args]))
        return var(lname, e.w)

    # ---- conversions
    def conv(self, v, ct):
        """convert integer value v to integer type ct (C semantics)"""
        if isinstance(ct, TVec): ct = ct.el
        src = v.ct.el if isinstance(v.ct, TVec) else v.ct
        if not isinstance(ct, TInt) or not isinstance(src, TInt):
            raise TranslateError("conv %r -> %r" % (v.ct, ct))
        sw, dw = self.W(src.w), self.W(ct.w)
        e = v.e
        if isinstance(e, VecL):
            return Val(ct, VecL([self.conv(Val(src, x), ct).e for x in e]))
        if dw < sw: e = mk("trunc", [e], dw)
        elif dw > sw: e = mk("sext" if src.signed else "zext", [e], dw)
        return Val(ct, e)

    # ---- lvalues: ("var", name) | ("mem", obj, off, ct)
    def lvalue(self, n, env):
        k = n["kind"]
        if k == "ParenExpr":
            return self.lvalue(n["inner"][0], env)
        if k == "ArraySubscriptExpr":
            b0 = n["inner"][0]
            while b0.get("kind") in ("ParenExpr", "ImplicitCastExpr") and b0.get("castKind") in (None, "NoOp", "LValueToRValue") and b0.get("inner"): b0 = b0["inner"][0]
            if b0.get("kind") == "DeclRefExpr" and isinstance(env.get(b0["referencedDecl"]["name"]), Val) and isinstance(env[b0["referencedDecl"]["name"]].ct, TVec) and env[b0["referencedDecl"]["name"]].ptr is None:
                iv = self.rvalue(n["inner"][1], env)
                if not iv.e.is_const(): raise TranslateError("symbolic vector lane index")
                return ("vlane", b0["referencedDecl"]["name"], iv.e.val)
        if k == "ArraySubscriptExpr":
            # element of a vector that lives in a memory object (`state.row[0][3]`): explicit lanes only
            b1 = n["inner"][0]
            while b1.get("kind") in ("ParenExpr", "ImplicitCastExpr") and b1.get("castKind") in (None, "NoOp", "LValueToRValue") and b1.get("inner"): b1 = b1["inner"][0]
            try:
                bt = self.tu.ctype(b1["type"])
            except Exception:
                bt = None
            if isinstance(bt, TVec) and b1.get("kind") in ("MemberExpr", "ArraySubscriptExpr", "UnaryOperator"):
                if TVec.GENERIC: raise TranslateError("vector element access in lane-generic mode")
                blv = self.lvalue(b1, env)
                if blv[0] == "mem":
                    iv = self.rvalue(n["inner"][1], env)
                    if not iv.e.is_const(): raise TranslateError("symbolic vector lane index")
                    return ("mem", blv[1], blv[2] + iv.e.val * bt.el.size(), bt.el)
        if k == "DeclRefExpr":
            nm = n["referencedDecl"]["name"]
            if nm in env:
                slot = env[nm]
                if isinstance(slot, Obj):
                    return ("mem", slot, 0, self.tu.ctype(n["type"]))
                return ("var", nm)
            if nm in self.tu.globals:
                return ("global", nm)
            raise TranslateError("unknown variable " + nm)
        if k == "ArraySubscriptExpr":
            base = self.rvalue(n["inner"][0], env)
            idx = self.rvalue(n["inner"][1], env)
            ct = self.tu.ctype(n["type"])
            if base.ptr is None:
                # vector element access
                raise TranslateError("subscript of non-pointer (vector element access is not element-wise)")
            if base.ptr[0] == "global":
                return ("globalelem", base.ptr[1], base.ptr[2] + [idx], ct)
            if not idx.e.is_const():
                if not self.piece_mode:
                    raise TranslateError("symbolic array index into memory object")
                iname = idx.e.name if idx.e.op == "var" else "e%d" % (len(self.elem_objs) + 1)
                key = (base.ptr[0].name, base.ptr[1], render(idx.e))
                if key not in self.elem_objs:
                    nm_ = "%s_at_%s" % (base.ptr[0].name, iname)
                    self.elem_objs[key] = Obj(nm_, ct.size(), var(nm_, 8 * ct.size()))
                return ("mem", self.elem_objs[key], 0, ct)
            i = tosigned(idx.e.val, idx.e.w) if idx.ct.signed else idx.e.val
            return ("mem", base.ptr[0], base.ptr[1] + i * ct.size(), ct)
        if k == "MemberExpr":
            b = n["inner"][0]
            bb = b
            while bb.get("kind") in ("ImplicitCastExpr", "ParenExpr") and bb.get("inner"): bb = bb["inner"][0]
            if bb.get("kind") == "CXXThisExpr":
                key = "this." + n["name"]
                if key not in env: raise TranslateError("member %s of `this` is not described in the manifest" % n["name"])
                if isinstance(env[key], Obj):
                    rt = getattr(self, "this_types", {}).get(n["name"]) or self.tu.ctype(n["type"])
                    return ("mem", env[key], 0, rt)
                return ("var", key)
            if n.get("isArrow"):
                pv = self.rvalue(b, env)
                obj, off = pv.ptr
                rt = pv.ct.to
            else:
                lv = self.lvalue(b, env)
                if lv[0] != "mem": raise TranslateError("member of non-memory lvalue")
                obj, off, rt = lv[1], lv[2], lv[3]
            if not isinstance(rt, TRec): raise TranslateError("member access on %r" % (rt,))
            lay = rt.layout()
            fo, ft = lay[n["name"]]
            return ("mem", obj, off + fo, ft)
        if k == "UnaryOperator" and n["opcode"] == "*":
            pv = self.rvalue(n["inner"][0], env)
            if pv.ptr is not None and pv.ptr[0] == "ref":
                return ("ref", pv.ptr[1], pv.ptr[2])
            return ("mem", pv.ptr[0], pv.ptr[1], pv.ct.to)
        if k in ("ImplicitCastExpr", "CStyleCastExpr") and n.get("castKind") == "NoOp":
            return self.lvalue(n["inner"][0], env)
        raise TranslateError("unsupported lvalue kind " + k)

    def load(self, lv, env):
        if lv[0] == "ref":
            return lv[2][lv[1]]
        if lv[0] == "vlane":
            v = env[lv[1]]
            if isinstance(v.e, VecL): return Val(v.ct.el, v.e[lv[2]])
            return Val(v.ct.el, v.e)          # uniform (lane-generic) vector: every lane is the generic lane
        if lv[0] == "var":
            v = env[lv[1]]
            if v.e is not None and not isinstance(v.e, VecL) and v.e.op == "undef":
                raise TranslateError("read of uninitialised local " + lv[1])
            return v
        if lv[0] == "mem":
            _, obj, off, ct = lv
            if isinstance(ct, (TArr, TRec)):
                return Val(ct, None, (obj, off))   # aggregate: address only
            n = ct.size()
            if obj.name in self.param_objs:
                self.io.append(("read", obj.name, off, n))
            if isinstance(ct, TVec):
                if obj.name in self.param_objs and not getattr(self, "explicit_lanes", False):
                    # lane-generic mode has no layout for a caller's buffer of vectors: the value is a poison variable.
                    # (It is harmless where the piece's inputs are re-introduced at the loop head; if it reached a
                    # generated definition, that definition would not compile - a broken obligation, never a wrong one.)
                    self.poison_n = getattr(self, "poison_n", 0) + 1
                    return Val(ct, var("zzpoison%d" % self.poison_n, 8 * ct.el.size()))
                if TVec.GENERIC:
                    return Val(ct, obj.read(off, ct.el.size(), self.W))          # the element of the generic lane
                elsz = ct.el.size()
                return Val(ct, VecL([obj.read(off + i_ * elsz, elsz, self.W) for i_ in range(ct.n)]))
            e = obj.read(off, n, self.W)
            if self.lane is not None:
                raise TranslateError("memory objects are not supported in lane mode")
            return Val(ct, e)
        if lv[0] == "globalelem":
            return self.global_read(lv[1], lv[2], lv[3])
        raise TranslateError("load " + lv[0])

    def store(self, lv, v, env):
        if lv[0] == "ref":
            self.store(("var", lv[1]), v, lv[2]); return
        if lv[0] == "vlane":
            old = env[lv[1]]
            lanes = VecL(old.e) if isinstance(old.e, VecL) else VecL([old.e] * old.ct.n)
            lanes[lv[2]] = self.fresh(v.e, "v")
            env[lv[1]] = Val(old.ct, lanes); return
        if lv[0] == "var":
            old = env[lv[1]]
            if v.ptr is not None:
                env[lv[1]] = Val(old.ct, None, v.ptr); return
            e = self.fresh(v.e, "v")
            env[lv[1]] = Val(old.ct, e)
            return
        if lv[0] == "mem":
            _, obj, off, ct = lv
            n = ct.size()
            if obj.name in self.param_objs:
                self.io.append(("write", obj.name, off, n))
            if isinstance(v.e, VecL):
                elsz = n // len(v.e)
                for i_, x_ in enumerate(v.e):
                    obj.write(off + i_ * elsz, elsz, self.fresh(x_, "m"))
                return
            if isinstance(ct, TRec) and v.ptr is not None:
                # struct/union copy
                src = v.ptr[0].read(v.ptr[1], n, self.W)
                obj.write(off, n, self.fresh(src, "m")); return
            e = self.fresh(v.e, "m")
            obj.write(off, n, e)
            return
        raise TranslateError("store " + lv[0])

    def global_read(self, name, idxs, ct):
        tab = self.global_table(name)
        # flatten index
        if all(i.e.is_const() for i in idxs):
            x = tab
            for i in idxs: x = x[i.e.val]
            if isinstance(x, list): raise TranslateError("partial index of global table")
            return Val(ct, const(x, self.W(ct.w)))
        # symbolic index: total look-up plus a leak event
        if len(idxs) != 1: raise TranslateError("symbolic multi-dimensional table index")
        self.leak.append(("addr", render(idxs[0].e)))
        lname = "%s.tab_%s" % (self.leanname, name)
        self.tables = getattr(self, "tables", {})
        self.tables[lname] = (tab, ct.w)
        e = E("lookup", [idxs[0].e], self.W(ct.w)); e.val = (lname, ct.w, len(tab))
        return Val(ct, e)

    def global_table(self, name):
        g = self.tu.globals[name]
        init = [c for c in g.get("inner", []) if c.get("kind") not in ("FullComment",)]
        if not init: raise TranslateError("global %s has no initialiser" % name)
        return self.const_init(init[-1])

    def const_init(self, n):
        if n["kind"] == "InitListExpr":
            return [self.const_init(c) for c in n.get("inner", [])]
        v = self.rvalue(n, {})
        if not v.e.is_const(): raise TranslateError("non-constant initialiser")
        return v.e.val

    # ---- rvalues
    def rvalue(self, n, env):
        self.steps += 1
        if self.steps > self.max_steps: raise TranslateError("step limit exceeded (unbounded loop?)")
        k = n["kind"]
        if k in ("ParenExpr", "ConstantExpr"):
            return self.rvalue(n["inner"][0], env)
        if k == "IntegerLiteral":
            ct = self.tu.ctype(n["type"])
            return Val(ct, const(int(n["value"]), self.W(ct.w)))
        if k == "CXXBoolLiteralExpr":
            return Val(TInt(8, False), const(1 if n.get("value") else 0, 8))
        if k == "CharacterLiteral":
            ct = self.tu.ctype(n["type"])
            return Val(ct, const(int(n["value"]), self.W(ct.w)))
        if k == "UnaryExprOrTypeTraitExpr":
            ct = self.tu.ctype(n["type"])
            if n.get("name") == "sizeof":
                if "argType" in n: t = self.tu.ctype(n["argType"])
                else: t = self.tu.ctype(n["inner"][0]["type"])
                return Val(ct, const(t.size(), self.W(ct.w)))
            raise TranslateError("type trait " + str(n.get("name")))
        if k == "DeclRefExpr":
            nm = n["referencedDecl"]["name"]
            if n["referencedDecl"].get("kind") == "EnumConstantDecl":
                raise TranslateError("enum constant")
            if nm in env:
                slot = env[nm]
                if isinstance(slot, Obj):
                    ct = self.tu.ctype(n["type"])
                    return Val(ct, None, (slot, 0))
                return slot
            if nm in self.tu.globals:
                ct = self.tu.ctype(n["type"])
                return Val(ct, None, ("global", nm, []))
            if nm in self.tu.funcs:
                return Val(TFunc(), None, ("func", nm))
            raise TranslateError("unknown name " + nm)
        if k in ("ImplicitCastExpr", "CStyleCastExpr"):
            ck = n.get("castKind")
            sub = n["inner"][0]
            ct = self.tu.ctype(n["type"])
            if ck == "LValueToRValue":
                ss = sub
                while ss.get("kind") == "ParenExpr": ss = ss["inner"][0]
                if ss.get("kind") == "CompoundLiteralExpr":
                    return self.rvalue(ss, env)
                return self.load(self.lvalue(sub, env), env)
            if ck == "ArrayToPointerDecay":
                if sub["kind"] == "DeclRefExpr" and sub["referencedDecl"]["name"] not in env and sub["referencedDecl"]["name"] in self.tu.globals:
                    return Val(ct, None, ("global", sub["referencedDecl"]["name"], []))
                if sub["kind"] == "ArraySubscriptExpr":
                    # global multi-dim table row
                    b = self.rvalue(sub["inner"][0], env)
                    if b.ptr is not None and b.ptr[0] == "global":
                        i = self.rvalue(sub["inner"][1], env)
                        return Val(ct, None, ("global", b.ptr[1], b.ptr[2] + [i]))
                lv = self.lvalue(sub, env)
                if lv[0] != "mem": raise TranslateError("array decay of non-memory")
                return Val(ct, None, (lv[1], lv[2]))
            if ck in ("NoOp", "BitCast", "FunctionToPointerDecay"):
                v = self.rvalue(sub, env)
                if v.ptr is not None:
                    return Val(ct, None, v.ptr)
                if isinstance(ct, TVec) or isinstance(v.ct, TVec):
                    return Val(ct, v.e)
                return Val(ct, v.e)
            if ck == "IntegralCast":
                return self.conv(self.rvalue(sub, env), ct)
            if ck == "VectorSplat":
                v = self.rvalue(sub, env)
                return Val(ct, self.conv(v, ct.el).e)
            if ck == "NullToPointer":
                return Val(ct, None, (None, 0))
            if ck == "PointerToBoolean":
                v = self.rvalue(sub, env)
                if v.ptr is None: raise TranslateError("PointerToBoolean of a non-pointer")
                return Val(TInt(8, False), const(0 if v.ptr[0] is None else 1, 8))
            if ck == "IntegralToBoolean":
                v = self.rvalue(sub, env)
                if not v.e.is_const(): raise TranslateError("symbolic boolean")
                return Val(ct, const(1 if v.e.val else 0, 8))
            if ck == "ToVoid":
                self.rvalue(sub, env); return Val(TVoid(), None)
            raise TranslateError("cast kind %s" % ck)
        if k == "UnaryOperator":
            op = n["opcode"]; sub = n["inner"][0]
            if op in ("++", "--"):
                lv = self.lvalue(sub, env)
                old = self.load(lv, env)
                if old.ptr is not None:
                    d = old.ct.to.size() * (1 if op == "++" else -1)
                    new = Val(old.ct, None, (old.ptr[0], old.ptr[1] + d))
                else:
                    w = old.e.w
                    new = Val(old.ct, mk("add" if op == "++" else "sub", [old.e, const(1, w)], w))
                self.store(lv, new, env)
                return old if n.get("isPostfix") else self.load(lv, env)
            if op == "&":
                lv = self.lvalue(sub, env)
                ct = self.tu.ctype(n["type"])
                if lv[0] == "mem": return Val(ct, None, (lv[1], lv[2]))
                if lv[0] == "var":
                    # address of a scalar/vector local: promote it to a reference cell
                    return Val(ct, None, ("ref", lv[1], env))
                if lv[0] == "globalelem" and all(i.e.is_const() and i.e.val == 0 for i in lv[2][-1:]):
                    return Val(ct, None, ("global", lv[1], lv[2][:-1]))
                raise TranslateError("address-of " + lv[0])
            if op == "*":
                return self.load(self.lvalue(n, env), env)
            v = self.rvalue(sub, env)
            ct = self.tu.ctype(n["type"])
            if isinstance(v.e, VecL) and op in ("~", "-", "+", "__extension__"):
                if op in ("+", "__extension__"): return v
                return Val(ct, VecL([mk("not" if op == "~" else "neg", [x], x.w) for x in v.e]))
            if op == "~": return Val(ct, mk("not", [v.e], v.e.w))
            if op == "-": return Val(ct, mk("neg", [v.e], v.e.w))
            if op in ("+", "__extension__"): return v
            if op == "!":
                if v.ptr is not None:
                    return Val(ct, const(1 if v.ptr[0] is None else 0, 32))
                if not v.e.is_const(): raise TranslateError("symbolic !")
                return Val(ct, const(0 if v.e.val else 1, 32))
            raise TranslateError("unary " + op)
        if k == "BinaryOperator":
            op = n["opcode"]
            if op == "=":
                v = self.rvalue(n["inner"][1], env)
                lv = self.lvalue_ref(n["inner"][0], env)
                self.store_ref(lv, v, env)
                return v
            if op == ",":
                self.rvalue(n["inner"][0], env)
                return self.rvalue(n["inner"][1], env)
            if op in ("&&", "||"):
                a = self.rvalue(n["inner"][0], env)
                ct = self.tu.ctype(n["type"])
                av = self.truth(a)
                if op == "&&" and not av: return Val(ct, const(0, 32))
                if op == "||" and av: return Val(ct, const(1, 32))
                b = self.rvalue(n["inner"][1], env)
                return Val(ct, const(1 if self.truth(b) else 0, 32))
            a = self.rvalue(n["inner"][0], env)
            b = self.rvalue(n["inner"][1], env)
            ct = self.tu.ctype(n["type"])
            return self.binop(op, a, b, ct)
        if k == "CompoundAssignOperator":
            op = n["opcode"][:-1]
            lv = self.lvalue_ref(n["inner"][0], env)
            old = self.load_ref(lv, env)
            rhs = self.rvalue(n["inner"][1], env)
            if old.ptr is not None:
                if not rhs.e.is_const(): raise TranslateError("symbolic pointer arithmetic")
                d = tosigned(rhs.e.val, rhs.e.w) if rhs.ct.signed else rhs.e.val
                d *= old.ct.to.size()
                new = Val(old.ct, None, (old.ptr[0], old.ptr[1] + (d if op == "+" else -d)))
                self.store_ref(lv, new, env); return new
            clt = self.tu.ctype(n["computeLHSType"]); crt = self.tu.ctype(n["computeResultType"])
            lhs = old if isinstance(old.ct, TVec) else self.conv(old, clt)
            if isinstance(old.ct, TVec):
                res = self.binop(op, lhs, rhs, old.ct)
                new = res
            else:
                res = self.binop(op, lhs, rhs, crt)
                new = self.conv(res, old.ct)
            self.store_ref(lv, new, env)
            return new
        if k == "ConditionalOperator":
            c = self.rvalue(n["inner"][0], env)
            if c.ptr is not None or c.e.is_const():
                return self.rvalue(n["inner"][1] if self.truth(c) else n["inner"][2], env)
            self.leak.append(("branch", render(c.e)))
            a = self.rvalue(n["inner"][1], env); b = self.rvalue(n["inner"][2], env)
            e = E("ite", [c.e, a.e, b.e], a.e.w)
            return Val(a.ct, e)
        if k == "ArraySubscriptExpr" or k == "MemberExpr":
            return self.load(self.lvalue(n, env), env)
        if k == "CallExpr":
            return self.call(n, env)
        if k == "StmtExpr":
            # GNU statement expression ({ decls; expr; }): the value of the last expression statement
            sts = [c for c in n["inner"][0].get("inner", [])]
            if not sts: raise TranslateError("empty statement expression")
            for st in sts[:-1]: self.stmt(st, env)
            return self.rvalue(sts[-1], env)
        if k == "CompoundLiteralExpr":
            return self.rvalue(n["inner"][0], env)
        if k == "InitListExpr":
            ct = self.tu.ctype(n["type"])
            if not isinstance(ct, TVec): raise TranslateError("init list of non-vector type")
            els = [self.conv(self.rvalue(c, env), ct.el).e for c in n.get("inner", [])]
            while len(els) < ct.n: els.append(const(0, self.W(ct.el.w)))
            return Val(ct, VecL(els))
        raise TranslateError("unsupported expression kind " + k)

    # reference-aware lvalue helpers (for `*u = ...` where u = &local)
    def lvalue_ref(self, n, env):
        if n["kind"] == "ParenExpr": return self.lvalue_ref(n["inner"][0], env)
        if n["kind"] == "UnaryOperator" and n["opcode"] == "*":
            pv = self.rvalue(n["inner"][0], env)
            if pv.ptr is not None and pv.ptr[0] == "ref":
                return ("ref", pv.ptr[1], pv.ptr[2])
        return self.lvalue(n, env)
    def load_ref(self, lv, env):
        if lv[0] == "ref": return lv[2][lv[1]]
        return self.load(lv, env)
    def store_ref(self, lv, v, env):
        if lv[0] == "ref":
            self.store(("var", lv[1]), v, lv[2]); return
        self.store(lv, v, env)

    def truth(self, v):
        if v.ptr is not None:
            return v.ptr[0] is not None
        if not v.e.is_const():
            raise TranslateError("branch on a symbolic value: " + render(v.e))
        return v.e.val != 0

    def binop(self, op, a, b, ct):
        if isinstance(a.e, VecL) or isinstance(b.e, VecL):
            n_ = len(a.e) if isinstance(a.e, VecL) else len(b.e)
            ela = a.ct.el if isinstance(a.ct, TVec) else a.ct
            elb = b.ct.el if isinstance(b.ct, TVec) else b.ct
            elc = ct.el if isinstance(ct, TVec) else ct
            res = []
            for i_ in range(n_):
                xa = Val(ela, a.e[i_] if isinstance(a.e, VecL) else a.e)
                xb = Val(elb, b.e[i_] if isinstance(b.e, VecL) else b.e)
                res.append(self.binop(op, xa, xb, elc).e)
            return Val(ct, VecL(res))
        if a.ptr is not None or b.ptr is not None:
            if op in ("+", "-") and a.ptr is not None and b.ptr is None:
                if not b.e.is_const(): raise TranslateError("symbolic pointer arithmetic")
                d = tosigned(b.e.val, b.e.w) if b.ct.signed else b.e.val
                d *= a.ct.to.size() if not isinstance(a.ct.to, TVoid) else 1
                return Val(a.ct, None, (a.ptr[0], a.ptr[1] + (d if op == "+" else -d)))
            if op in ("==", "!="):
                eq = (a.ptr == b.ptr) if (a.ptr is not None and b.ptr is not None) else False
                return Val(ct, const(int(eq if op == "==" else not eq), 32))
            raise TranslateError("pointer binop " + op)
        el = ct.el if isinstance(ct, TVec) else ct
        ea, eb = a.e, b.e
        at = a.ct.el if isinstance(a.ct, TVec) else a.ct
        if op in ("<<", ">>"):
            if not eb.is_const(): raise TranslateError("shift by symbolic amount")
            sh = eb.val
            w = ea.w
            if self.lane is None and sh >= w: raise TranslateError("shift amount >= width")
            if op == "<<": return Val(ct, mk("shl", [ea], w, sh))
            return Val(ct, mk("ashr" if at.signed else "lshr", [ea], w, sh))
        if op in ("<", ">", "<=", ">=", "==", "!="):
            if not (ea.is_const() and eb.is_const()):
                raise TranslateError("comparison of symbolic values")
            x, y = ea.val, eb.val
            if at.signed: x, y = tosigned(x, ea.w), tosigned(y, eb.w)
            r = {"<": x < y, ">": x > y, "<=": x <= y, ">=": x >= y, "==": x == y, "!=": x != y}[op]
            return Val(ct, const(int(r), 32))
        if ea.w != eb.w:
            raise TranslateError("width mismatch in %s: %d vs %d" % (op, ea.w, eb.w))
        w = ea.w
        m = {"&": "and", "|": "or", "^": "xor", "+": "add", "-": "sub", "*": "mul"}
        if op in m:
            return Val(ct, mk(m[op], [ea, eb], w))
        if op in ("/", "%"):
            if not (ea.is_const() and eb.is_const()): raise TranslateError("symbolic division")
            return Val(ct, const(ea.val // eb.val if op == "/" else ea.val % eb.val, w))
        raise TranslateError("binary operator " + op)

    # ---- calls (inlined)
    def call(self, n, env):
        callee = n["inner"][0]
        while callee["kind"] in ("ImplicitCastExpr", "ParenExpr"):
            callee = callee["inner"][0]
        if callee["kind"] != "DeclRefExpr": raise TranslateError("indirect call")
        nm = callee["referencedDecl"]["name"]
        if nm == "clean" and getattr(self.tu, "cxx", False):
            return Val(TVoid(), None)         # Crypto.h: template clean(T&) wipes a local before it goes out of scope
        args = [self.rvalue(a, env) for a in n["inner"][1:]]
        if nm in ("memcpy", "__builtin_memcpy", "memset", "__builtin_memset"):
            return self.mem_builtin(nm, args)
        f = self.tu.funcs.get(nm)
        if f is None or not any(c.get("kind") == "CompoundStmt" for c in f.get("inner", [])):
            raise TranslateError("call to external function " + nm)
        r = self.registered_call(nm, f, args, n)
        if r is not None:
            return r
        return self.run_function(f, args)

    def registered_call(self, nm, f, args, n):
        """if the callee is itself a manifest leaf (same TU, same flags) emit a call to its Lean
        definition instead of inlining it, so that proofs can use the leaf's lemmas.
        Leaf signature convention: inputs in parameter order (const and out-only parameters
        omitted); outputs = return value (if any) followed by the written objects in parameter order."""
        cands = self.registry.get(nm, [])
        params = [c for c in f.get("inner", []) if c.get("kind") == "ParmVarDecl"]
        for ent in cands:
            if self.lane is not None and not ent.get("lane"): continue
            lname = ent["lean"] + ("_lane" if self.lane is not None else "")
            if lname == self.leanname: continue
            sig = self.sigs.get(lname)
            if sig is None: continue
            if not self.same_leaf(ent): continue
            pspec = ent.get("params", {})
            ok = True; cargs = []; byname = {}
            for p, a in zip(params, args):
                spec = pspec.get(p["name"], {})
                byname[p["name"]] = a
                if "const" in spec:
                    if a.e is None or not a.e.is_const() or a.e.val != (spec["const"] & ((1 << a.e.w) - 1)): ok = False; break
                    continue
                if a.ptr is not None:
                    if a.ptr[0] == "ref":
                        if not spec.get("lanewise"): ok = False; break
                        cargs.append(a.ptr[2][a.ptr[1]].e); continue
                    if isinstance(a.ptr[0], Obj):
                        if spec.get("out"): continue
                        ct = a.ct.to
                        size = spec.get("bytes", None if isinstance(ct, (TInt, TVoid)) else ct.size())
                        if size is None or a.ptr[1] < 0 or a.ptr[1] + size > a.ptr[0].size: ok = False; break
                        cargs.append(("objread", a.ptr[0], a.ptr[1], size)); continue
                    ok = False; break
                if a.e is None or isinstance(a.e, VecL): ok = False; break      # explicit lanes: inline the callee instead
                cargs.append(self.atom(a.e, "a"))
            if not ok: continue
            cargs = [self.atom(c[1].read(c[2], c[3], self.W), "a") if isinstance(c, tuple) else c for c in cargs]
            outs = sig   # list of ("ret", w) | ("obj", pname, w) | ("ref", pname, w)
            ce = E("call", cargs, 0); ce.val = lname
            if len(outs) == 1:
                res = [self.bind_call(ce, outs[0][-1])]
            else:
                tup = self.bind_call(ce, 0)
                res = []
                for i, o in enumerate(outs):
                    pe = E("proj", [tup], o[-1]); pe.val = (i, len(outs))
                    res.append(self.fresh(pe, "p"))
            retv = Val(TVoid(), None)
            for o, r in zip(outs, res):
                if o[0] == "ret":
                    retv = Val(self.tu.ctype(n["type"]), r)
                elif o[0] == "obj":
                    a = byname[o[1]]
                    a.ptr[0].write(a.ptr[1], o[2] // 8, r)
                    if a.ptr[0].name in self.param_objs:
                        self.io.append(("write", a.ptr[0].name, a.ptr[1], o[2] // 8))
                elif o[0] == "ref":
                    a = byname[o[1]]
                    cellenv, key = a.ptr[2], a.ptr[1]
                    cellenv[key] = Val(cellenv[key].ct, r)
            return retv
        return None

    def same_leaf(self, ent):
        """the registered leaf was translated under ent['flags']; it may be called from this TU only
        if translating it under this TU's flags gives literally the same Lean text"""
        if list(ent.get("flags", [])) == list(self.tu.userflags): return True
        key = (self.tu.path, tuple(self.tu.userflags), ent["lean"], self.lane)
        if key not in LEAF_EQ_CACHE:
            try:
                txt, _ = translate(self.tu, ent, self.registry, dict(self.sigs), lane=(ent.get("lane") if self.lane is not None else None), probe=True)
            except TranslateError:
                txt = None
            ref = LEAF_TEXT.get(ent["lean"] + ("_lane" if self.lane is not None else ""))
            LEAF_EQ_CACHE[key] = (txt is not None and txt == ref)
        return LEAF_EQ_CACHE[key]

    def atom(self, e, hint):
        return e if e.op in ("var", "const") else self.fresh(e, hint)

    def bind_call(self, ce, w):
        self.counter += 1
        lname = "zc%d" % self.counter
        self.lets.append((lname, None, render(ce)))
        self.call_args.extend(ce.args)
        return var(lname, w)

    def mem_builtin(self, nm, args):
        dst, a1, cnt = args
        if not cnt.e.is_const(): raise TranslateError("symbolic memcpy/memset size")
        nbytes = cnt.e.val
        if nbytes == 0: return dst
        if "memset" in nm:
            if not a1.e.is_const(): raise TranslateError("symbolic memset value")
            b = a1.e.val & 0xff
            dst.ptr[0].write(dst.ptr[1], nbytes, const(int.from_bytes(bytes([b]) * nbytes, "little"), 8 * nbytes))
        else:
            e = a1.ptr[0].read(a1.ptr[1], nbytes, self.W)
            dst.ptr[0].write(dst.ptr[1], nbytes, self.fresh(e, "m"))
        return dst

    def run_function(self, f, args):
        env = dict(getattr(self, "this_env", {}))
        params = [c for c in f.get("inner", []) if c.get("kind") == "ParmVarDecl"]
        for p, a in zip(params, args):
            env[p["name"]] = a
        body = [c for c in f["inner"] if c.get("kind") == "CompoundStmt"][0]
        try:
            self.stmt(body, env)
        except Ret as r:
            return r.v
        return Val(TVoid(), None)

    # ---- statements
    def stmt(self, n, env):
        self.steps += 1
        if self.steps > self.max_steps: raise TranslateError("step limit exceeded (unbounded loop?)")
        k = n["kind"]
        if k == "CompoundStmt":
            for c in n.get("inner", []): self.stmt(c, env)
            return
        if k == "DeclStmt":
            for d in n.get("inner", []):
                if d["kind"] != "VarDecl": continue
                ct = self.tu.ctype(d["type"])
                init = [c for c in d.get("inner", []) if c.get("kind") != "FullComment"]
                # C++: `T x;` of a trivially constructible aggregate carries a CXXConstructExpr without arguments
                init = [c for c in init if not (c.get("kind") == "CXXConstructExpr" and not c.get("inner"))]
                if isinstance(ct, (TArr, TRec)):
                    o = Obj(d["name"], ct.size(), None)
                    o.junk = var("junk_" + d["name"], 8 * ct.size())
                    self.local_objs.append(o)
                    env[d["name"]] = o
                    if init:
                        v = self.rvalue(init[0], env)
                        if v.ptr is None: raise TranslateError("aggregate initialiser")
                        src = v.ptr[0].read(v.ptr[1], ct.size(), self.W)
                        o.write(0, ct.size(), self.fresh(src, "m"))
                    continue
                if init:
                    v = self.rvalue(init[0], env)
                    if v.ptr is not None:
                        env[d["name"]] = Val(ct, None, v.ptr)
                    else:
                        env[d["name"]] = Val(ct, self.fresh(v.e, "v"))
                else:
                    env[d["name"]] = Val(ct, E("undef", [], 0))
            return
        if k == "ReturnStmt":
            inner = n.get("inner", [])
            raise Ret(self.rvalue(inner[0], env) if inner else Val(TVoid(), None))
        if k == "IfStmt":
            c = self.rvalue(n["inner"][0], env)
            if self.truth(c): self.stmt(n["inner"][1], env)
            elif len(n["inner"]) > 2: self.stmt(n["inner"][2], env)
            return
        if k == "ForStmt":
            init, _, cond, inc, body = n["inner"]
            if init.get("kind"): self.stmt(init, env) if init["kind"].endswith("Stmt") else self.rvalue(init, env)
            while True:
                if cond.get("kind"):
                    if not self.truth(self.rvalue(cond, env)): break
                try:
                    self.stmt(body, env)
                except Brk: break
                except Cont: pass
                if inc.get("kind"): self.rvalue(inc, env)
            return
        if k == "WhileStmt":
            cond, body = n["inner"][0], n["inner"][1]
            while self.truth(self.rvalue(cond, env)):
                try: self.stmt(body, env)
                except Brk: break
                except Cont: pass
            return
        if k == "DoStmt":
            body, cond = n["inner"][0], n["inner"][1]
            while True:
                try: self.stmt(body, env)
                except Brk: break
                except Cont: pass
                if not self.truth(self.rvalue(cond, env)): break
            return
        if k == "BreakStmt": raise Brk()
        if k == "ContinueStmt": raise Cont()
        if k == "NullStmt": return
        # expression statement
        self.rvalue(n, env)

# --------------------------------------------------------------------------- driver per manifest entry

def lean_ty(w): return "BitVec %d" % w

def pack_lanes(lanes):
    """one bit vector from explicit lanes, lane 0 in the low bits"""
    w = lanes[0].w; W_ = w * len(lanes); acc = None
    for i_, x_ in enumerate(lanes):
        t = mk("shl", [mk("zext", [x_], W_)], W_, w * i_)
        acc = t if acc is None else mk("or", [acc, t], W_)
    return acc

def has_body(f):
    return f is not None and any(c.get("kind") == "CompoundStmt" for c in f.get("inner", []))

def top_level_pieces(body):
    """split the statements of a function body at its top-level loops:
    returns list of ("seg", [stmts]) / ("loop", loopstmt) in order"""
    out = []; cur = []
    for st in body.get("inner", []):
        if st.get("kind") in ("ForStmt", "WhileStmt", "DoStmt"):
            out.append(("seg", cur)); cur = []
            out.append(("loop", st))
        else:
            cur.append(st)
    out.append(("seg", cur))
    return out

def assigned_names(node, acc):
    k = node.get("kind")
    def base_name(n):
        while n.get("kind") in ("ParenExpr", "ImplicitCastExpr", "CStyleCastExpr") and n.get("inner"):
            n = n["inner"][0]
        if n.get("kind") == "DeclRefExpr": return n["referencedDecl"]["name"]
        return None
    if k in ("BinaryOperator", "CompoundAssignOperator") and (node.get("opcode") == "=" or k == "CompoundAssignOperator"):
        b = base_name(node["inner"][0])
        if b: acc.add(b)
    if k == "UnaryOperator" and node.get("opcode") in ("++", "--", "&"):
        b = base_name(node["inner"][0])
        if b: acc.add(b)
    for c in node.get("inner", []):
        if isinstance(c, dict): assigned_names(c, acc)
    return acc

def havoc(ex, env):
    """forget everything known about locals at a loop boundary: every local that the function
    assigns somewhere becomes a fresh symbolic input named after the C variable"""
    assigned = ex.assigned
    for nm, slot in list(env.items()):
        if isinstance(slot, Val) and slot.ptr is None and nm not in assigned:
            continue
        if isinstance(slot, Obj):
            o = Obj(slot.name, slot.size, var(slot.name, 8 * slot.size))
            if slot.name in ex.param_objs: ex.param_objs[slot.name] = o
            env[nm] = o
            # pointers to the old object must follow: handled below by name
        elif isinstance(slot, Val) and slot.ptr is None:
            if slot.e is not None and isinstance(slot.ct, (TInt, TVec)):
                el = slot.ct.el if isinstance(slot.ct, TVec) else slot.ct
                if isinstance(slot.ct, TVec) and getattr(ex, "explicit_lanes", False):
                    full = var(nm, el.w * slot.ct.n)
                    env[nm] = Val(slot.ct, VecL([mk("extract", [full], el.w, el.w * i_) for i_ in range(slot.ct.n)]))
                else:
                    env[nm] = Val(slot.ct, var(nm, ex.W(el.w)))
    for nm, slot in list(env.items()):
        if isinstance(slot, Val) and slot.ptr is not None:
            tgt = slot.ptr[0]
            if isinstance(tgt, Obj) and tgt.name in ex.param_objs and slot.ptr[1] == 0 and nm == tgt.name:
                env[nm] = Val(slot.ct, None, (ex.param_objs[tgt.name], 0))   # pointer parameter itself
                continue
            if tgt is None or tgt == "ref": continue
            # a pointer local that walks through an array: a window [-S, +S) of fresh bytes
            S = ex.windows.get(nm, slot.ct.to.size())
            win = Obj(nm + "_win", 2 * S, None)
            win.segs = [(0, S, var(nm + "_m1", 8 * S)), (S, S, var(nm + "_0", 8 * S))]
            ex.param_objs[win.name] = win
            env[nm] = Val(slot.ct, None, (win, S))

def translate_table(tu, ent):
    """a file-scope constant table as a list of little-endian row images"""
    g = tu.globals.get(ent["table"])
    if g is None: raise TranslateError("global %s not found" % ent["table"])
    ct = tu.ctype(g["type"])
    ex = Exec(tu, ent["table"], ent["lean"])
    tab = ex.global_table(ent["table"])
    el = ct
    while isinstance(el, TArr): el = el.el
    rows = []
    for row in tab:
        vals = row if isinstance(row, list) else [row]
        img = 0
        for i, v in enumerate(vals): img |= (v & ((1 << el.w) - 1)) << (el.w * i)
        rows.append((img, el.w * len(vals)))
    w = rows[0][1]
    isconst = "const" in g["type"]["qualType"]
    text = "def %s : List (BitVec %d) := [%s]\n\ndef %s.isConst : Bool := %s\n" % (ent["lean"], w, ", ".join("0x%x#%d" % (v, w) for v, _ in rows), ent["lean"], "true" if isconst else "false")
    return text, {"lean": ent["lean"], "table": ent["table"], "rows": len(rows), "width": w, "const": isconst, "sig": [], "outs": [], "stages": [], "lets": [], "leak": [], "io": []}

def translate_dispatch(ent, allmeta):
    """a dispatcher over a family of size-specialised pieces: `f k junk key` calls the piece
    specialised to key size `k` on the low `8k` bits of `key`"""
    W = ent["width"]
    lines = ["@[gen_unfold] def %s (k : Nat) (junk : BitVec %d) (key : BitVec %d) : BitVec %d :=" % (ent["lean"], ent["junkwidth"], W, ent["outwidth"]), "  match k with"]
    ks = sorted(int(k) for k in ent["cases"])
    uses_junk = False
    for k in ks:
        m = allmeta.get(ent["cases"][str(k)])
        if m is None: raise TranslateError("dispatch case %s was not translated" % ent["cases"][str(k)])
        args = []
        for nm, w in m["sig"]:
            if nm.startswith("junk_"):
                if w != ent["junkwidth"]: raise TranslateError("junk width")
                args.append("junk"); uses_junk = True
            else:
                args.append("(BitVec.setWidth %d key)" % w)
        pat = str(k) if k != ks[-1] else "_"
        lines.append("  | %s => %s %s" % (pat, ent["cases"][str(k)], " ".join(args)))
    text = "\n".join(lines) + "\n\ndef %s.usesJunk : Bool := %s\n" % (ent["lean"], "true" if uses_junk else "false")
    return text, {"lean": ent["lean"], "dispatch": True, "uses_junk": uses_junk, "sig": [], "outs": [], "stages": [], "lets": [], "leak": [], "io": []}

def translate_guard(tu, ent):
    """the leading argument validation `if (cond) return 0;` of a public function as a Bool-valued
    Lean function of (null flags of the pointer parameters, the integer parameters)"""
    f = tu.funcs.get(ent["func"])
    if not has_body(f): raise TranslateError("function %s not found" % ent["func"])
    body = [c for c in f["inner"] if c.get("kind") == "CompoundStmt"][0]
    params = [c for c in f.get("inner", []) if c.get("kind") == "ParmVarDecl"]
    ex = Exec(tu, ent["func"], ent["lean"])
    env = {}; sig = []
    for p in params:
        ct = tu.ctype(p["type"])
        if isinstance(ct, TPtr):
            env[p["name"]] = ("nullflag", p["name"] + "_null"); sig.append("(%s_null : Bool)" % p["name"])
        elif isinstance(ct, TInt):
            env[p["name"]] = Val(ct, var(p["name"], ct.w)); sig.append("(%s : BitVec %d)" % (p["name"], ct.w))
        else:
            raise TranslateError("guard: parameter type %r" % ct)
    first = None
    for st in body.get("inner", []):
        if st.get("kind") == "IfStmt": first = st; break
        if st.get("kind") != "DeclStmt": break
    def returns_zero(n):
        if n.get("kind") == "CompoundStmt":
            inner = [c for c in n.get("inner", [])]
            return len(inner) == 1 and returns_zero(inner[0])
        if n.get("kind") == "ReturnStmt":
            try:
                v = ex.rvalue(n["inner"][0], {})
                return v.e.is_const() and v.e.val == 0
            except Exception:
                return False
        return False
    if first is None or not returns_zero(first["inner"][1]):
        cond = "false"
    else:
        def strip(n):
            while n.get("kind") in ("ParenExpr", "ImplicitCastExpr") and n.get("inner"): n = n["inner"][0]
            return n
        def tr(n):
            k = n.get("kind")
            if k == "ParenExpr": return tr(n["inner"][0])
            if k == "ImplicitCastExpr" and n.get("castKind") in ("PointerToBoolean", "IntegralToBoolean", "IntegralCast", "LValueToRValue", "NoOp"):
                inner = n["inner"][0]
                if n.get("castKind") == "PointerToBoolean":
                    b = strip(inner)
                    if b.get("kind") == "DeclRefExpr" and isinstance(env.get(b["referencedDecl"]["name"]), tuple):
                        return "(!%s)" % env[b["referencedDecl"]["name"]][1]
                    raise TranslateError("guard: pointer expression")
                return tr(inner)
            if k == "BinaryOperator" and n["opcode"] in ("||", "&&"):
                return "(%s %s %s)" % (tr(n["inner"][0]), n["opcode"], tr(n["inner"][1]))
            if k == "UnaryOperator" and n["opcode"] == "!":
                b = strip(n["inner"][0])
                if b.get("kind") == "DeclRefExpr" and isinstance(env.get(b["referencedDecl"]["name"]), tuple):
                    return env[b["referencedDecl"]["name"]][1]
                return "(!%s)" % tr(n["inner"][0])
            if k == "BinaryOperator" and n["opcode"] in ("<", ">", "<=", ">=", "==", "!="):
                a = ex.rvalue(n["inner"][0], env); b = ex.rvalue(n["inner"][1], env)
                at = a.ct
                if a.e.w != b.e.w: raise TranslateError("guard: width mismatch")
                op = n["opcode"]
                ra, rb = render(a.e), render(b.e)
                if op == "==": return "(%s == %s)" % (ra, rb)
                if op == "!=": return "(%s != %s)" % (ra, rb)
                if at.signed:
                    m = {"<": "BitVec.slt %s %s", ">": "BitVec.slt %s %s", "<=": "BitVec.sle %s %s", ">=": "BitVec.sle %s %s"}[op]
                else:
                    m = {"<": "BitVec.ult %s %s", ">": "BitVec.ult %s %s", "<=": "BitVec.ule %s %s", ">=": "BitVec.ule %s %s"}[op]
                return "(" + (m % ((ra, rb) if op in ("<", "<=") else (rb, ra))) + ")"
            raise TranslateError("guard: unsupported condition node " + str(k))
        cond = tr(first["inner"][0])
    text = "def %s %s : Bool :=\n  %s\n" % (ent["lean"], " ".join(sig), cond)
    return text, {"lean": ent["lean"], "guard": cond, "sig": [], "outs": [], "stages": [], "lets": [], "leak": [], "io": []}

def translate(tu, ent, registry, sigs, lane=None, probe=False):
    """returns (lean text, meta)"""
    if "table" in ent:
        return translate_table(tu, ent)
    if ent.get("guard"):
        return translate_guard(tu, ent)
    fname = ent["func"]; lname = ent["lean"] + ("_lane" if lane else "")
    f = tu.funcs.get(fname)
    if not has_body(f):
        raise TranslateError("function %s not found (with body) in %s under %s" % (fname, tu.path, tu.flags))
    ex = Exec(tu, fname, lname, lane)
    ex.registry, ex.sigs = registry, sigs
    ex.assigned = assigned_names(f, set())
    ex.windows = ent.get("windows", {})
    ex.explicit_lanes = ent.get("veclanes") == "explicit"
    TVec.GENERIC = not ex.explicit_lanes
    params = [c for c in f.get("inner", []) if c.get("kind") == "ParmVarDecl"]
    args, sig, objs = [], [], []
    pspec = ent.get("params", {})
    env = {}
    for p in params:
        ct = tu.ctype(p["type"]); nm = p["name"]; spec = pspec.get(nm, {})
        if isinstance(ct, TPtr):
            if spec.get("null"):
                args.append(Val(ct, None, (None, 0))); continue
            if "bytes" in spec: size = spec["bytes"]
            elif isinstance(ct.to, (TRec, TVec, TArr)): size = ct.to.size()
            else: raise TranslateError("pointer parameter %s of %s needs a size in the manifest" % (nm, fname))
            if isinstance(ct.to, TVec) and spec.get("lanewise"):
                w = ex.W(ct.to.el.w)
                if "const" in spec:
                    # an argument of no interest for this leaf: fixed, and its result is not an output
                    cell = {"__v": Val(ct.to, const(spec["const"], w))}
                    args.append(Val(ct, None, ("ref", "__v", cell)))
                    continue
                cell = {"__v": Val(ct.to, var(nm, w))}
                args.append(Val(ct, None, ("ref", "__v", cell)))
                sig.append((nm, w)); objs.append(("ref", nm, cell, w))
                continue
            o = Obj(nm, size, None if spec.get("out") else var(nm, 8 * size))
            for off, val in spec.get("fix", {}).items():   # constant fields, e.g. a fixed round count
                nb, v = val
                o.write(int(off), nb, const(v, 8 * nb)); o.written = False
            ex.param_objs[nm] = o
            args.append(Val(ct, None, (o, 0)))
            if not spec.get("out"): sig.append((nm, 8 * size))
            objs.append(("obj", nm, o, 8 * size))
        elif isinstance(ct, (TInt, TVec)):
            el = ct.el if isinstance(ct, TVec) else ct
            if "const" in spec:
                args.append(Val(ct, const(spec["const"], ex.W(el.w))))
            else:
                w = ex.W(el.w)
                args.append(Val(ct, var(nm, w))); sig.append((nm, w))
        else:
            raise TranslateError("parameter %s of type %r" % (nm, ct))
        env[nm] = args[-1]
    for p, a_ in zip(params, args):
        env[p["name"]] = a_
    # C++ methods: the fields of `*this` that the method uses, as described in the manifest
    for fld, spec in ent.get("this", {}).items():
        if "bytes" in spec:            # a pointer field: the memory it points to becomes an object parameter
            o = Obj(fld, spec["bytes"], None if spec.get("out") else var(fld, 8 * spec["bytes"]))
            ex.param_objs[fld] = o
            el = TInt(spec.get("elbits", 32), False)
            env["this." + fld] = Val(TPtr(el), None, (o, 0))
            if not spec.get("out"): sig.append((fld, 8 * spec["bytes"]))
            objs.append(("obj", fld, o, 8 * spec["bytes"]))
        elif "obj" in spec:             # an embedded aggregate member
            if "fields" in spec:
                ex.this_types = getattr(ex, "this_types", {})
                ex.this_types[fld] = TRec("struct", [(fn_, TArr(TInt(fb_, False), fc_) if fc_ > 1 else TInt(fb_, False)) for fn_, fb_, fc_ in spec["fields"]])
            o = Obj(fld, spec["obj"], None if spec.get("out") else var(fld, 8 * spec["obj"]))
            ex.param_objs[fld] = o
            env["this." + fld] = o
            if not spec.get("out"): sig.append((fld, 8 * spec["obj"]))
            objs.append(("obj", fld, o, 8 * spec["obj"]))
        elif "const" in spec:
            env["this." + fld] = Val(TInt(spec.get("bits", 8), False), const(spec["const"], spec.get("bits", 8)))
        else:
            w_ = spec.get("bits", 8)
            env["this." + fld] = Val(TInt(w_, False), var(fld, w_)); sig.append((fld, w_))
    ex.this_env = {k_: v_ for k_, v_ in env.items() if k_.startswith("this.")}
    outs = []     # (kind, name, E)
    piece = ent.get("piece")
    if piece is None:
        ret = ex.run_function(f, args)
        if ret is not None and ret.e is not None and not isinstance(ret.ct, TVoid):
            outs.append(("ret", "", ex.atom(ret.e, "r")))
        for kind, nm, o, w in objs:
            if kind == "obj":
                if o.written:
                    outs.append(("obj", nm, ex.atom(o.image(), "o")))
            else:
                outs.append(("ref", nm, o["__v"].e))
    else:
        ex.piece_mode = True
        body = [c for c in f["inner"] if c.get("kind") == "CompoundStmt"][0]
        pieces = top_level_pieces(body)
        want = None
        li = si = 0
        idx = 0
        for kind, st in pieces:
            k = si if kind == "seg" else li
            if kind == piece["kind"] and k == piece["index"]:
                want = idx
            if kind == "seg": si += 1
            else: li += 1
            idx += 1
        if want is None: raise TranslateError("piece %r not found in %s" % (piece, fname))
        # run (and discard) everything before the wanted piece, only to learn the declarations
        try:
            for i, (kind, st) in enumerate(pieces[:want]):
                if kind == "seg":
                    for c in st: ex.stmt(c, env)
                else:
                    havoc(ex, env)
        except Ret:
            raise TranslateError("function returns before the requested piece")
        if want > 0 or piece["kind"] == "loop":
            havoc(ex, env)
        for nm, o in ex.param_objs.items(): o.written = False
        for nm, slot in env.items():
            if isinstance(slot, Obj):
                slot.written = False
                if slot.segs == [(0, slot.size, None)]:
                    slot.junk = var("junk_" + slot.name, 8 * slot.size)
        ex.stages, ex.lets, ex.leak, ex.io = [], [], [], []
        kind, st = pieces[want]
        before = {nm: (slot.e if isinstance(slot, Val) else None) for nm, slot in env.items()}
        retv = None
        try:
            if kind == "seg":
                for c in st: ex.stmt(c, env)
            else:
                b = st["inner"][-1] if st["kind"] != "DoStmt" else st["inner"][0]
                try:
                    ex.stmt(b, env)
                except Cont:
                    pass
        except Ret as r:
            retv = r.v
        # declared-late locals (declared inside the piece) that were never initialised get junk
        wanted = ent.get("outs")
        avail = {}
        for nm, slot in env.items():
            if isinstance(slot, Obj):
                if slot.written: avail[slot.name] = ("obj", slot)
            elif isinstance(slot, Val) and slot.ptr is None and slot.e is not None and (isinstance(slot.e, VecL) or slot.e.op != "undef"):
                if before.get(nm) is not slot.e: avail[nm] = ("val", slot)
        for nm, o in ex.param_objs.items():
            if o.written: avail[nm] = ("obj", o)
        for nm, o in ex.elem_objs.items():
            if o.written: avail[o.name] = ("obj", o)
        if retv is not None and retv.e is not None and not isinstance(retv.ct, TVoid):
            outs.append(("ret", "", ex.atom(retv.e, "r")))
        if wanted is None:
            wanted = sorted(avail)
        for nm in wanted:
            if nm not in avail and nm.endswith("_0") and (nm[:-2] + "_win") in avail:
                # the current element of a walking pointer's window (bytes [S, 2S) of the window object)
                wobj = avail[nm[:-2] + "_win"][1]
                S_ = wobj.size // 2
                outs.append(("obj", nm, ex.atom(wobj.read(S_, S_, ex.W), "o")))
                continue
            if nm not in avail:
                raise TranslateError("piece output %s is not assigned in %s %r (assigned: %s)" % (nm, fname, piece, sorted(avail)))
            k2, slot = avail[nm]
            if k2 == "obj": outs.append(("obj", nm, ex.atom(slot.image(), "o")))
            elif isinstance(slot.e, VecL): outs.append(("val", nm, ex.atom(pack_lanes(slot.e), "o")))
            else: outs.append(("val", nm, slot.e))
    if not outs: raise TranslateError("function %s has no outputs" % fname)
    # signature = free variables of everything emitted, in a canonical order
    fv = {}
    for (sname, sargs, w, body_) in ex.stages:
        pass
    used = {}
    bound = set(l[0] for l in ex.lets)
    for (ln, sn, sa) in ex.lets:
        if sn is None:
            for tok in re.findall(r"[A-Za-z_][A-Za-z_0-9.]*", sa):
                used[tok] = True
        else:
            for a_ in sa: used[a_] = True
    for k_, nm_, e_ in outs: free_vars(e_, used)
    if piece is not None:
        widths = {}
        for (sname, sargs, w, b_) in ex.stages:
            for a_, aw in sargs: widths[a_] = aw
        for k_, nm_, e_ in outs:
            fvs = free_vars(e_, {})
            widths.update(fvs)
        # call arguments are atoms whose widths we know from the lets
        allv = {}
        def collect(e):
            if e.op == "var": allv[e.name] = e.w
            for x in e.args: collect(x)
        for e in ex.call_args: collect(e)
        widths.update({k: v for k, v in allv.items()})
        sig = [(nm, widths[nm]) for nm in sorted(used) if nm in widths and nm not in bound and not re.match(r"^z[vmracpo]\d+$", nm)]
        order = ent.get("ins")
        if order is not None:
            missing = [nm for nm, _ in sig if nm not in order]
            if missing: raise TranslateError("piece %s of %s reads %s which the manifest does not list as inputs" % (piece, fname, missing))
            d = dict(sig)
            sig = [(nm, d[nm]) for nm in order if nm in d] + [(nm, ent["in_widths"][nm]) for nm in order if nm not in d]
            sig = [(nm, dict(sig)[nm]) for nm in order]
    if piece is None:
        for o in ex.local_objs:
            if o.junk_reads and o.junk.name in used:
                sig.append((o.junk.name, o.junk.w))
    # dead-let elimination (reads that were bound but never used)
    live = set()
    for k_, nm_, e_ in outs: live.update(free_vars(e_, {}).keys())
    kept = []
    for (ln, sn, sa) in reversed(ex.lets):
        if ln not in live: continue
        kept.append((ln, sn, sa))
        if sn is None:
            live.update(re.findall(r"[A-Za-z_][A-Za-z_0-9]*", sa))
        else:
            live.update(sa)
    ex.lets = list(reversed(kept))
    keep_stage = set(sn for (_, sn, _) in ex.lets if sn is not None)
    ex.stages = [st_ for st_ in ex.stages if st_[0] in keep_stage]
    sig = [(nm, w) for (nm, w) in sig if piece is None or nm in live or (ent.get("ins") and nm in ent["ins"])]
    lines = []
    for lname_t, (tab, w) in getattr(ex, "tables", {}).items():
        lines.append("def %s : List (BitVec %d) := [%s]" % (lname_t, w, ", ".join("0x%x#%d" % (x, w) for x in tab)))
    for (sname, sargs, w, body_) in ex.stages:
        lines.append("@[gen_unfold] def %s %s : %s :=\n  %s" % (sname, " ".join("(%s : %s)" % (a_, lean_ty(aw)) for a_, aw in sargs), lean_ty(w), body_))
    rty = " × ".join(lean_ty(o[2].w) for o in outs)
    attr = "" if ((ent.get("lane") or ent.get("opaque")) and piece is None) else "@[gen_unfold] "
    hdr = attr + "def %s %s : %s :=" % (lname, " ".join("(%s : %s)" % (a_, lean_ty(w)) for a_, w in sig), rty)
    body_ = []
    for (ln, sn, sa) in ex.lets:
        if sn is None: body_.append("  let %s := %s" % (ln, sa))
        else: body_.append("  let %s := %s %s" % (ln, sn, " ".join(sa)))
    res = ", ".join(render(o[2]) for o in outs)
    body_.append("  " + (res if len(outs) == 1 else "(" + res + ")"))
    lines.append(hdr + "\n" + "\n".join(body_))
    lines.append("def %s.leakEvents : Nat := %d" % (lname, len(ex.leak)))
    junk_reads = {}
    for o in ex.local_objs:
        if o.junk_reads and o.junk.name in used: junk_reads[o.name] = o.junk_reads
    meta = {"lean": lname, "func": fname, "file": ent["file"], "flags": ent.get("flags", []), "piece": piece,
            "sig": sig, "outs": [(o[0], o[1], o[2].w) for o in outs],
            "stages": [(s_, a_, w) for (s_, a_, w, _) in ex.stages],
            "lets": ex.lets, "leak": ex.leak, "io": ex.io, "junk_reads": junk_reads, "out_exprs": [render(o[2]) for o in outs],
            "consts": {k: v for k, v in ((pn, ps.get("const")) for pn, ps in pspec.items()) if v is not None}}
    text = "\n\n".join(lines) + "\n"
    if not probe:
        sigs[lname] = [(o[0], o[1], o[2].w) for o in outs]
        if piece is None: LEAF_TEXT[lname] = text
    return text, meta

def main():
    import argparse
    ap = argparse.ArgumentParser()
    ap.add_argument("--repo", default="/repo")
    here = os.path.dirname(os.path.abspath(__file__))
    ap.add_argument("--manifest", default=os.path.join(here, "gen_manifest.json"))
    ap.add_argument("--out", default=os.path.join(here, "..", "lean", "SkinnyVerif", "Gen"))
    ap.add_argument("--meta", default=None)
    a = ap.parse_args()
    man = json.load(open(a.manifest))
    os.makedirs(a.out, exist_ok=True)
    tus = {}
    report = {"modules": {}, "errors": []}
    allmeta = {}
    # registry of callable leaves per TU configuration
    registries = {}
    sigs = {}
    for mod in man["modules"]:
        for ent in mod["entries"]:
            if ent.get("piece") is None and "func" in ent and not ent.get("guard"):
                registries.setdefault(ent["file"], {}).setdefault(ent["func"], []).append(ent)
    for mod in man["modules"]:
        imports = mod.get("imports", [])
        texts = ["/- GENERATED by tools/c2lean.py from %s -- do not edit -/" % ", ".join(sorted(set(e["file"] for e in mod["entries"])))]
        texts.append("import SkinnyVerif.Basic.Attr")
        for im in imports: texts.append("import SkinnyVerif.Gen." + im)
        texts += ["namespace SkinnyVerif.Gen", ""]
        for ent in mod["entries"]:
            key = (ent["file"], tuple(ent.get("flags", [])))
            try:
                if key not in tus:
                    base = ["-std=c99", "-I" + os.path.join(a.repo, "include"), "-I" + os.path.join(a.repo, "src"), "-DRWEATHER_SKINNY_C_VERIF"]
                    if ent["file"].endswith(".cpp"):
                        adir = os.path.dirname(os.path.join(a.repo, ent["file"]))
                        base = ["-std=gnu++11", "-I" + adir, "-I" + os.path.join(adir, "utility")]
                    tus[key] = TU(os.path.join(a.repo, ent["file"]), base + list(ent.get("flags", [])), cxx=ent["file"].endswith(".cpp"))
                    tus[key].userflags = list(ent.get("flags", []))
                tu = tus[key]
                if "dispatch" in ent:
                    txt, meta = translate_dispatch(ent, allmeta)
                else:
                    txt, meta = translate(tu, ent, registries.get(ent["file"], {}), sigs)
                texts.append(txt); allmeta[meta["lean"]] = meta
                if ent.get("lane"):
                    txt2, meta2 = translate(tu, ent, registries.get(ent["file"], {}), sigs, lane=ent["lane"])
                    texts.append(txt2); allmeta[meta2["lean"]] = meta2
            except TranslateError as ex:
                report["errors"].append({"lean": ent["lean"], "func": ent.get("func", ent.get("table")), "file": ent["file"], "error": str(ex)})
                texts.append("-- TRANSLATION FAILED for %s: %s\n" % (ent["lean"], str(ex).replace("\n", " ")[:300]))
        texts.append("end SkinnyVerif.Gen\n")
        out = "\n".join(texts)
        path = os.path.join(a.out, mod["name"] + ".lean")
        old = open(path).read() if os.path.exists(path) else None
        if old != out:
            open(path, "w").write(out)
        report["modules"][mod["name"]] = {"changed": old != out, "sha": hashlib.sha256(out.encode()).hexdigest()[:16]}
    if a.meta:
        json.dump({"report": report, "meta": allmeta}, open(a.meta, "w"), indent=1)
    print(json.dumps(report, indent=1))
    return 1 if report["errors"] else 0

if __name__ == "__main__":
    sys.exit(main())
