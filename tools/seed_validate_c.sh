#!/bin/sh
# seed_validate_c.sh <prop> <suffix> -- confirm a seeded change delivered by a sub-agent in /tmp/seed/<prop>_<suffix>/_seed
# (patch.diff, demo.c / demo.sh, RUN.txt, meta.json; the demonstration prints PASS / exits 0 on the original sources and
# prints FAIL / exits non-zero on the changed ones).  Steps: clean checkout -> demo must PASS; apply patch -> library builds
# without warnings, the 30-test suite passes, demo must FAIL.  On success the change is kept as /verif/seeded/<prop>_<suffix>/.
p=$1; sfx=$2; name=${p}_${sfx}
wt=/tmp/seed/$name; out=/tmp/seed/out_$name
set -e
rm -rf $out; cp -r $wt/_seed $out
cd $wt
git checkout -q -- . ; git clean -fdxq; cp -r $out $wt/_seed
git apply --check $out/patch.diff
rundemo() {
  make -s -C $wt clean >/dev/null 2>&1 || true
  make -s -C $wt all > $out/build_$1.log 2>&1 || { echo "FAIL: build ($1)"; tail $out/build_$1.log; return 9; }
  if [ -f $wt/_seed/demo.sh ]; then
    [ -f $wt/_seed/demo.c ] && cc -O2 -I$wt/include -I$wt/src -o $wt/_seed/demo $wt/_seed/demo.c $wt/src/libskinny.a >/dev/null 2>&1   # helper used by some demo.sh scripts
    ( cd $wt && sh _seed/demo.sh ) > $out/demo_$1.log 2>&1; rc=$?
  else ( cd $wt && sh _seed/RUN.txt ) > $out/demo_$1.log 2>&1; rc=$?      # RUN.txt: the exact commands, as shell
    grep -q "FAIL" $out/demo_$1.log && rc=1
    grep -q "PASS" $out/demo_$1.log || rc=1
  fi
  return $rc
}
set +e
rundemo clean; rc=$?
set -e
[ $rc -eq 0 ] && grep -q "PASS" $out/demo_clean.log || { echo "FAIL: demo does not PASS on the clean tree (rc=$rc)"; tail -3 $out/demo_clean.log; exit 1; }
git apply $out/patch.diff
set +e
rundemo patched; rc=$?
set -e
[ $rc -ne 0 ] && [ $rc -ne 9 ] && grep -q "FAIL" $out/demo_patched.log || { echo "FAIL: demo does not FAIL on the changed tree (rc=$rc)"; tail -3 $out/demo_patched.log; exit 1; }
if grep -qi "warning" $out/build_patched.log; then echo "note: build warnings with the change"; grep -i warning $out/build_patched.log | head -3; fi
make -s -C $wt check > $out/suite.log 2>&1 || { echo "FAIL: suite"; tail $out/suite.log; exit 1; }
npass=$(grep -c "ok$" $out/suite.log || true)
[ "$npass" = "30" ] || { echo "FAIL: suite has $npass ok lines"; exit 1; }
mkdir -p /verif/seeded/$name
cp $out/patch.diff $out/meta.json $out/RUN.txt /verif/seeded/$name/
for f in demo.c demo.cpp demo.sh; do [ -f $out/$f ] && cp $out/$f /verif/seeded/$name/; done
tail -12 $out/demo_patched.log > /verif/seeded/$name/demonstration.txt
git checkout -q -- . ; git clean -fdxq
echo "CONFIRMED $name (30 tests ok; demo PASS on clean, FAIL rc=$rc with the change)"
