#!/usr/bin/env python3
"""Shared machinery of the checks: scratch builds of /repo, the two protocol drivers,
regeneration of the Lean generated layer, lake builds, axiom audit, evidence files."""
import atexit, hashlib, json, os, re, shutil, subprocess, sys, tempfile, time

HERE = os.path.dirname(os.path.abspath(__file__))
VERIF = os.path.dirname(HERE)
REPO = os.environ.get("VERIF_REPO", "/repo")
LEAN = os.path.join(VERIF, "lean")
GUARD = "-DRWEATHER_SKINNY_C_VERIF"
NPROC = os.cpu_count() or 4

_scratch = []
def scratch_dir(prefix="skv-"):
    d = tempfile.mkdtemp(prefix=prefix, dir=os.environ.get("VERIF_SCRATCH", "/tmp"))
    _scratch.append(d)
    return d
def _cleanup():
    for d in _scratch:
        shutil.rmtree(d, ignore_errors=True)
atexit.register(_cleanup)

def run(cmd, **kw):
    return subprocess.run(cmd, capture_output=True, text=True, **kw)

# ------------------------------------------------------------------ PRNG (splitmix64)
class Rng:
    def __init__(self, seed): self.s = (seed * 0x9E3779B97F4A7C15 + 0x1234567) & (2**64 - 1)
    def next(self):
        self.s = (self.s + 0x9E3779B97F4A7C15) & (2**64 - 1)
        z = self.s
        z = ((z ^ (z >> 30)) * 0xBF58476D1CE4E5B9) & (2**64 - 1)
        z = ((z ^ (z >> 27)) * 0x94D049BB133111EB) & (2**64 - 1)
        return z ^ (z >> 31)
    def below(self, n): return self.next() % n if n > 0 else 0
    def choice(self, xs): return xs[self.below(len(xs))]
    def bytes(self, n):
        out = bytearray()
        while len(out) < n: out += self.next().to_bytes(8, "little")
        return bytes(out[:n])
    def hex(self, n): return self.bytes(n).hex() if n else "-"
    def chance(self, p): return (self.next() % 10000) < p * 10000

# ------------------------------------------------------------------ build configurations
class BuildCfg:
    """one member of the build matrix"""
    def __init__(self, name, cc="gcc", opt="-O3", w64=1, unaligned=1, le=1, vec128=1, vec256=1, extra=()):
        self.name, self.cc, self.opt = name, cc, opt
        self.w64, self.unaligned, self.le, self.vec128, self.vec256 = w64, unaligned, le, vec128, vec256
        self.extra = list(extra)
    def defs(self):
        d = [GUARD]
        if not self.w64: d.append("-DSKINNY_VERIF_64BIT=0")
        if not self.unaligned: d.append("-DSKINNY_VERIF_UNALIGNED=0")
        if not self.le: d.append("-DSKINNY_VERIF_LITTLE_ENDIAN=0")
        if not self.vec128: d.append("-DSKINNY_VERIF_VEC128_MATH=0")
        if not self.vec256: d.append("-DSKINNY_VERIF_VEC256_MATH=0")
        return d
    def tag(self):
        return ("64" if self.w64 else "32") + ("le" if self.le else "be") + ("" if self.unaligned else "-u0")
    def backends(self):
        b = ["generic"]
        if self.vec128: b.append("vec128")
        if self.vec256 and self.vec128: b.append("vec256")
        return b

DEFAULT_CFG = BuildCfg("default")
QUICK_MATRIX = [
    DEFAULT_CFG,
    BuildCfg("w32", w64=0),
    BuildCfg("nosimd-aligned", vec128=0, vec256=0, unaligned=0),
    BuildCfg("simd-aligned", unaligned=0),
    BuildCfg("neutral32", w64=0, le=0, vec128=0, vec256=0, unaligned=0),
    BuildCfg("clang-O1", cc="clang-14", opt="-O1"),
]
def full_matrix():
    out = []
    for cc in ("gcc", "clang-14"):
        for opt in ("-O0", "-O1", "-O2", "-O3"):
            for w64 in (1, 0):
                for un in (1, 0):
                    for simd in ("256", "128", "none", "neutral"):
                        if simd == "neutral" and un: continue
                        v128 = simd in ("256", "128"); v256 = simd == "256"
                        le = 0 if simd == "neutral" else 1
                        out.append(BuildCfg("%s%s-w%d-u%d-%s" % (cc, opt, 64 if w64 else 32, un, simd), cc, opt, w64, un, le, int(v128), int(v256)))
    return out

def copy_sources(dst):
    """copy /repo's working tree sources (not build products) into a scratch directory"""
    for sub in ("src", "include", "examples", "arduino", "test"):
        s = os.path.join(REPO, sub)
        if os.path.isdir(s):
            shutil.copytree(s, os.path.join(dst, sub), ignore=shutil.ignore_patterns("*.o", "*.a", "test-skinny", "test-perf", "skinny-ctr", "skinny-ecb", "skinny-tweak"))
    for f in ("options.mak", "Makefile"):
        if os.path.exists(os.path.join(REPO, f)): shutil.copy(os.path.join(REPO, f), dst)

def build_lib(cfg, srcroot=None, hooks=True, sanitize=None):
    """build libskinny.a for a configuration in a fresh scratch directory through the repository's
    own makefile; returns the directory that contains src/libskinny.a and include/"""
    d = scratch_dir("skv-lib-")
    copy_sources(d)
    flags = [cfg.opt, "-Wall", "-Wextra"] + (cfg.defs() if hooks else []) + cfg.extra
    if sanitize: flags += sanitize
    p = run(["make", "-C", os.path.join(d, "src"), "-j%d" % NPROC, "CC=" + cfg.cc, "COMMON_CFLAGS=" + " ".join(flags), "libskinny.a"])
    if p.returncode != 0:
        raise RuntimeError("library build failed for %s:\n%s" % (cfg.name, (p.stdout + p.stderr)[-3000:]))
    return d

def build_cdrv(libdir, cfg=DEFAULT_CFG, sanitize=None, name="cdrv"):
    out = os.path.join(libdir, name)
    cmd = [cfg.cc, "-O1", "-g", "-I" + os.path.join(libdir, "include"), "-o", out, os.path.join(VERIF, "harness", "cdrv.c"),
           os.path.join(libdir, "src", "libskinny.a"), "-Wl,--wrap=calloc,--wrap=free"]
    if sanitize: cmd += sanitize
    p = run(cmd)
    if p.returncode != 0:
        raise RuntimeError("cdrv build failed:\n" + (p.stdout + p.stderr)[-3000:])
    return out

def run_driver(exe, script, env=None, timeout=600):
    e = dict(os.environ); e.update(env or {})
    p = subprocess.run([exe], input=script, capture_output=True, text=True, env=e, timeout=timeout)
    return p.stdout.split("\n")[:-1] if p.stdout.endswith("\n") else p.stdout.split("\n"), p.returncode, p.stderr

# ------------------------------------------------------------------ Lean side
def regenerate():
    """re-run the translator and the facts pass on /repo's current sources; returns (meta, facts, errors)"""
    meta_path = os.path.join(scratch_dir("skv-meta-"), "meta.json")
    p = run([sys.executable, os.path.join(HERE, "gen_manifest.py")])
    p = run([sys.executable, os.path.join(HERE, "c2lean.py"), "--repo", REPO, "--meta", meta_path])
    errors = []
    meta = {}
    try:
        m = json.load(open(meta_path)); meta = m["meta"]; errors = m["report"]["errors"]
    except Exception as ex:
        errors = [{"lean": "*", "error": "translator crashed: %s %s" % (ex, p.stderr[-1500:])}]
    if meta:
        q = run([sys.executable, os.path.join(HERE, "gen_lemmas.py"), meta_path])
        if q.returncode != 0: errors.append({"lean": "gen_lemmas", "error": q.stderr[-1500:]})
    facts_path = os.path.join(os.path.dirname(meta_path), "facts.json")
    f = run([sys.executable, os.path.join(HERE, "facts.py"), REPO, facts_path])
    facts = {}
    try:
        facts = json.load(open(facts_path))
    except Exception as ex:
        errors.append({"lean": "facts", "error": "facts pass failed: %s %s" % (ex, f.stderr[-1500:])})
    sl = [l for l in f.stdout.strip().split("\n") if l.startswith("sizes ")]
    sizes_line = sl[-1] if sl else "sizes 0 0 0 0 0 0 0 0 0 0"
    # CPU probes -> Gen/Probes.lean
    perr_path = os.path.join(os.path.dirname(meta_path), "probe_errors.json")
    pp = run([sys.executable, os.path.join(HERE, "probe2lean.py"), REPO, perr_path])
    try:
        errors += json.load(open(perr_path))
    except Exception as ex:
        errors.append({"lean": "Gen/Probes.lean", "error": "probe translator crashed: %s %s" % (ex, pp.stderr[-800:])})
    return meta, facts, errors, sizes_line

class lean_lock:
    """checks may be started concurrently: the translator output and `lake build` share one directory, so regeneration
    and builds are serialised by an advisory lock (the lock file lives next to the build output, never under /tmp)"""
    def __enter__(self):
        import fcntl
        os.makedirs(os.path.join(LEAN, ".lake"), exist_ok=True)
        self.f = open(os.path.join(LEAN, ".lake", "verif.lock"), "w")
        fcntl.flock(self.f, fcntl.LOCK_EX)
        return self
    def __exit__(self, *a):
        import fcntl
        fcntl.flock(self.f, fcntl.LOCK_UN); self.f.close()

def private_drivers():
    """copies of the two compiled drivers in this run's scratch directory (a later relink by a concurrent check cannot
    pull the binary away from under a running script); returns (model, spec) paths, None when a driver is missing"""
    import shutil
    d = scratch_dir("skv-drv-")
    out = []
    with lean_lock():
        for nm in ("skinny_model", "skinny_spec"):
            src = os.path.join(LEAN, ".lake", "build", "bin", nm)
            if os.path.exists(src):
                dst = os.path.join(d, nm); shutil.copy2(src, dst); out.append(dst)
            else:
                out.append(None)
    return out[0], out[1]

def lake_build(targets, timeout=3600):
    """returns (ok, failed_modules, log)"""
    with lean_lock():
        p = subprocess.run(["lake", "build"] + targets, cwd=LEAN, capture_output=True, text=True, timeout=timeout)
    log = p.stdout + p.stderr
    failed = sorted(set(re.findall(r"^- (SkinnyVerif[\w.]*)", log, re.M)))
    return p.returncode == 0, failed, log

def failing_lemmas(log):
    """names of the theorems in which `lake build` reported errors (the declaration enclosing each error position)"""
    out = []
    for m in re.finditer(r"^error: (SkinnyVerif/[\w/]+\.lean):(\d+):\d+", log, re.M):
        path = os.path.join(LEAN, m.group(1)); line = int(m.group(2))
        try:
            src = open(path).read().split("\n")
        except OSError:
            continue
        for k in range(min(line, len(src)) - 1, -1, -1):
            d = re.match(r"^\s*(?:@\[[^\]]*\]\s*)?(?:private\s+)?(?:theorem|lemma|def|example)\s+([\w.']+)", src[k])
            if d:
                out.append("%s (%s)" % (d.group(1), os.path.basename(path))); break
    seen = []; [seen.append(x) for x in out if x not in seen]
    return seen[:12]

FORBIDDEN = re.compile(r"\b(sorry|admit|native_decide|bv_decide|implemented_by|unsafe)\b|^\s*axiom\s|maxHeartbeats 0\b", re.M)
def strip_comments(txt):
    txt = re.sub(r"/-.*?-/", "", txt, flags=re.S)
    return re.sub(r"--.*", "", txt)
def source_audit():
    """grep the library sources (comments stripped) for forbidden constructs"""
    hits = []
    for root, _, files in os.walk(os.path.join(LEAN, "SkinnyVerif")):
        for fn in files:
            if not fn.endswith(".lean"): continue
            path = os.path.join(root, fn)
            txt = strip_comments(open(path).read())
            for m in FORBIDDEN.finditer(txt):
                hits.append("%s: %s" % (os.path.relpath(path, LEAN), m.group(0).strip()))
    return hits

ALLOWED_AXIOMS = {"propext", "Classical.choice", "Quot.sound"}
def axiom_audit(theorems, imports):
    """#print axioms for every named theorem; returns {theorem: [axioms] | None if missing}"""
    d = scratch_dir("skv-ax-")
    src = "\n".join("import " + i for i in imports) + "\n" + "\n".join("#print axioms %s" % t for t in theorems) + "\n"
    path = os.path.join(d, "Audit.lean")
    open(path, "w").write(src)
    p = subprocess.run(["lake", "env", "lean", path], cwd=LEAN, capture_output=True, text=True)
    out = p.stdout + p.stderr
    res = {}
    for t in theorems:
        short = t
        m = re.search(r"'%s' depends on axioms: \[(.*?)\]" % re.escape(short), out, re.S)
        if m:
            res[t] = [a.strip() for a in m.group(1).replace("\n", " ").split(",") if a.strip()]
        elif re.search(r"'%s' does not depend on any axioms" % re.escape(short), out):
            res[t] = []
        else:
            res[t] = None
    return res, out

def model_exe():
    ok, failed, log = lake_build(["skinny_model"])
    exe = os.path.join(LEAN, ".lake", "build", "bin", "skinny_model")
    if not ok or not os.path.exists(exe):
        raise RuntimeError("model driver does not build:\n" + log[-3000:])
    return exe

# ------------------------------------------------------------------ evidence
def write_evidence(pid, tier, seed, coverage, wall, violations, assumptions=None, level="proof"):
    os.makedirs(os.path.join(VERIF, "evidence"), exist_ok=True)
    ev = {"property_id": pid, "tier": tier, "seed": seed, "level": level, "coverage": coverage,
          "assumptions": assumptions or [], "wall_s": round(wall, 2), "violations": violations}
    json.dump(ev, open(os.path.join(VERIF, "evidence", pid + ".json"), "w"), indent=1)

def load_known():
    p = os.path.join(VERIF, "known_findings.json")
    if not os.path.exists(p): return {"findings": [], "fixed": []}
    return json.load(open(p))
