#!/bin/sh
# Build the framework from files on disk only (offline): regenerate the Lean generated layer
# from /repo's sources and build the Lean library (all theorems) and the two protocol drivers.
set -e
cd "$(dirname "$0")"
python3 tools/gen_manifest.py >/dev/null
python3 tools/c2lean.py --repo "${VERIF_REPO:-/repo}" --meta /tmp/skv-setup-meta.json >/dev/null || true
python3 tools/gen_lemmas.py /tmp/skv-setup-meta.json >/dev/null
python3 tools/facts.py "${VERIF_REPO:-/repo}" >/dev/null
python3 tools/probe2lean.py "${VERIF_REPO:-/repo}" >/dev/null
rm -f /tmp/skv-setup-meta.json
cd lean
lake build SkinnyVerif skinny_model skinny_spec
