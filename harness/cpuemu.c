/*
 * cpuemu.c -- run the library's CPU probes and init functions on an emulated x86 CPU model.
 * The kernel's CPUID-faulting facility (arch_prctl(ARCH_SET_CPUID, 0)) makes every CPUID
 * instruction executed by the unmodified library raise SIGSEGV; the handler answers it from the
 * model given on the command line.  XGETBV cannot be intercepted: XCR0 is the host's.
 *
 *   cpuemu <maxleaf> <leaf1.ecx> <leaf1.edx> <leaf7.0.ebx> <leaf7.n.ebx> <entry_ecx>
 *     leaf1.ecx / leaf1.edx: "host" or a hex value; entry_ecx: value left in ECX before each probe call
 *   cpuemu sched <k>
 *     two threads, host CPU model: thread A runs skinny128_ctr_init / parallel_ecb_init for the first time in the
 *     process; when A is about to execute its k-th CPUID instruction, thread B runs both init functions to
 *     completion, then A resumes (a schedule at CPUID granularity: hidden state in the probes - a cache, a
 *     half-written flag - shows as an answer that differs between the threads or from the CPU's features).
 *     Output: "sched=1 k=<k> cpuids=<n> A=<be>/<psize> B=<be>/<psize>"
 * Output: one line  "emu=1 xcr0=<hex> has128=<0|1> has256=<0|1> ctr128=<generic|vec128|vec256> psize128=<n>"
 * or "emu=0" when the facility is unavailable.
 */
#define _GNU_SOURCE
#include <stdio.h>
#include <stdlib.h>
#include <string.h>
#include <stdint.h>
#include <signal.h>
#include <unistd.h>
#include <ucontext.h>
#include <sys/syscall.h>
#include <asm/prctl.h>
#include <pthread.h>
#include "skinny128-cipher.h"
#include "skinny128-parallel.h"
#include "skinny128-ctr-internal.h"

extern int _skinny_has_vec128(void);
extern int _skinny_has_vec256(void);

static uint32_t m_maxleaf, m_l1ecx, m_l1edx, m_l7ebx0, m_l7ebxn;
static int host_l1ecx, host_l1edx;

static void real_cpuid(uint32_t leaf, uint32_t sub, uint32_t r[4])
{
    __asm__ __volatile__ ("cpuid" : "=a"(r[0]), "=b"(r[1]), "=c"(r[2]), "=d"(r[3]) : "0"(leaf), "2"(sub));
}

static volatile int sched_k = -1, sched_count = 0, sched_go = 0, sched_done = 0;
static char resB[64];
static const char *be_of(const Skinny128CTR_t *c)
{
    return c->vtable == &_skinny128_ctr_vec256 ? "vec256" : c->vtable == &_skinny128_ctr_vec128 ? "vec128" : "generic";
}
static void *thread_b(void *arg)
{
    Skinny128CTR_t ctr; Skinny128ParallelECB_t par;
    (void)arg;
    while (!__atomic_load_n(&sched_go, __ATOMIC_ACQUIRE)) ;
    memset(&ctr, 0, sizeof(ctr)); memset(&par, 0, sizeof(par));
    skinny128_ctr_init(&ctr); skinny128_parallel_ecb_init(&par);
    snprintf(resB, sizeof(resB), "%s/%u", be_of(&ctr), (unsigned)par.parallel_size);
    __atomic_store_n(&sched_done, 1, __ATOMIC_RELEASE);
    return 0;
}

static void on_fault(int sig, siginfo_t *info, void *vctx)
{
    ucontext_t *uc = vctx;
    greg_t *g = uc->uc_mcontext.gregs;
    const uint8_t *ip = (const uint8_t *)g[REG_RIP];
    uint32_t r[4], leaf, sub;
    (void)info;
    if (ip[0] != 0x0F || ip[1] != 0xA2) { signal(sig, SIG_DFL); return; }
    if (sched_k >= 0) {
        if (sched_count == sched_k && !sched_go) {          /* let the other thread run its first initialisation now */
            __atomic_store_n(&sched_go, 1, __ATOMIC_RELEASE);
            while (!__atomic_load_n(&sched_done, __ATOMIC_ACQUIRE)) ;
        }
        ++sched_count;
    }
    leaf = (uint32_t)g[REG_RAX]; sub = (uint32_t)g[REG_RCX];
    syscall(SYS_arch_prctl, ARCH_SET_CPUID, 1UL);
    real_cpuid(leaf, sub, r);
    syscall(SYS_arch_prctl, ARCH_SET_CPUID, 0UL);
    if (leaf == 0) r[0] = m_maxleaf;
    else if (leaf == 1) { if (!host_l1ecx) r[2] = m_l1ecx; if (!host_l1edx) r[3] = m_l1edx; }
    else if (leaf == 7) { r[0] = 0; r[1] = (sub == 0) ? m_l7ebx0 : m_l7ebxn; r[2] = 0; r[3] = 0; }
    else if (leaf > m_maxleaf && leaf < 0x40000000u) { r[0] = r[1] = r[2] = r[3] = 0; }
    g[REG_RAX] = r[0]; g[REG_RBX] = r[1]; g[REG_RCX] = r[2]; g[REG_RDX] = r[3];
    g[REG_RIP] += 2;
}

static int call_with_ecx(int (*f)(void), uint32_t ecx)
{
    int res;
    __asm__ __volatile__ ("call *%2" : "=a"(res), "+c"(ecx) : "r"(f) : "rdx", "rsi", "rdi", "r8", "r9", "r10", "r11", "memory", "cc");
    return res;
}

int main(int argc, char **argv)
{
    struct sigaction sa;
    uint32_t entry, lo, hi;
    int h128, h256;
    Skinny128CTR_t ctr; Skinny128ParallelECB_t par;
    const char *be = "generic";
    if (argc == 2 && !strcmp(argv[1], "hostinfo")) {
        uint32_t r[4], r0[4], r7[4];
        real_cpuid(0, 0, r0); real_cpuid(1, 0, r); real_cpuid(7, 0, r7);
        __asm__ __volatile__ ("xgetbv" : "=a"(lo), "=d"(hi) : "c"(0));
        printf("maxleaf=%u l1ecx=%x l1edx=%x l7ebx=%x xcr0=%x\n", r0[0], r[2], r[3], r7[1], lo);
        return 0;
    }
    if (argc == 3 && !strcmp(argv[1], "sched")) {
        pthread_t tb; Skinny128CTR_t c2; Skinny128ParallelECB_t p2;
        uint32_t r0[4], r1[4];
        real_cpuid(0, 0, r0); real_cpuid(1, 0, r1);
        m_maxleaf = r0[0]; host_l1ecx = host_l1edx = 1;
        { uint32_t r7[4]; real_cpuid(7, 0, r7); m_l7ebx0 = r7[1]; real_cpuid(7, 1, r7); m_l7ebxn = r7[1]; }
        memset(&sa, 0, sizeof(sa));
        sa.sa_sigaction = on_fault; sa.sa_flags = SA_SIGINFO | SA_NODEFER; sigemptyset(&sa.sa_mask);
        if (sigaction(SIGSEGV, &sa, 0) != 0) { printf("sched=0\n"); return 0; }
        pthread_create(&tb, 0, thread_b, 0);                    /* B executes CPUID natively */
        if (syscall(SYS_arch_prctl, ARCH_SET_CPUID, 0UL) != 0) { printf("sched=0\n"); return 0; }
        sched_k = atoi(argv[2]);
        memset(&c2, 0, sizeof(c2)); memset(&p2, 0, sizeof(p2));
        skinny128_ctr_init(&c2); skinny128_parallel_ecb_init(&p2);
        syscall(SYS_arch_prctl, ARCH_SET_CPUID, 1UL);
        __atomic_store_n(&sched_go, 1, __ATOMIC_RELEASE);       /* A made fewer than k CPUID calls: B runs afterwards */
        pthread_join(tb, 0);
        printf("sched=1 k=%d cpuids=%d A=%s/%u B=%s\n", sched_k, sched_count, be_of(&c2), (unsigned)p2.parallel_size, resB);
        return 0;
    }
    if (argc < 7) return 2;
    m_maxleaf = strtoul(argv[1], 0, 0);
    host_l1ecx = !strcmp(argv[2], "host"); if (!host_l1ecx) m_l1ecx = strtoul(argv[2], 0, 16);
    host_l1edx = !strcmp(argv[3], "host"); if (!host_l1edx) m_l1edx = strtoul(argv[3], 0, 16);
    m_l7ebx0 = strtoul(argv[4], 0, 16); m_l7ebxn = strtoul(argv[5], 0, 16);
    entry = strtoul(argv[6], 0, 16);
    __asm__ __volatile__ ("xgetbv" : "=a"(lo), "=d"(hi) : "c"(0));
    memset(&sa, 0, sizeof(sa));
    sa.sa_sigaction = on_fault; sa.sa_flags = SA_SIGINFO | SA_NODEFER; sigemptyset(&sa.sa_mask);
    if (sigaction(SIGSEGV, &sa, 0) != 0 || syscall(SYS_arch_prctl, ARCH_SET_CPUID, 0UL) != 0) { printf("emu=0\n"); return 0; }
    h128 = call_with_ecx(_skinny_has_vec128, entry);
    h256 = call_with_ecx(_skinny_has_vec256, entry);
    memset(&ctr, 0, sizeof(ctr)); memset(&par, 0, sizeof(par));
    skinny128_ctr_init(&ctr);
    skinny128_parallel_ecb_init(&par);
    syscall(SYS_arch_prctl, ARCH_SET_CPUID, 1UL);
    if (ctr.vtable == &_skinny128_ctr_vec256) be = "vec256";
    else if (ctr.vtable == &_skinny128_ctr_vec128) be = "vec128";
    printf("emu=1 xcr0=%x has128=%d has256=%d ctr128=%s psize128=%u\n", lo, h128 != 0, h256 != 0, be, (unsigned)par.parallel_size);
    return 0;
}
