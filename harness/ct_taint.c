/* ct_taint.c -- C08 oracle: run under valgrind memcheck with every secret (key, tweak, counter,
   data) marked UNDEFINED.  Memcheck then reports every conditional branch and every address
   computation of the *compiled* library that depends on a secret ("Conditional jump or move
   depends on uninitialised value(s)", "Use of uninitialised value").  Public parameters
   (lengths, round counts, modes, the back end) stay defined.  Outputs are re-marked defined
   before anything looks at them.  One run covers all secret values of the paths memcheck models. */
#include <stdio.h>
#include <stdlib.h>
#include <string.h>
#include <stdint.h>
#include <valgrind/memcheck.h>
#include "skinny128-cipher.h"
#include "skinny64-cipher.h"
#include "mantis-cipher.h"
#include "skinny128-parallel.h"
#include "skinny64-parallel.h"
#include "mantis-parallel.h"

extern int _skinny_verif_backend_cap;

static unsigned char key[64], tweak[64], ctrv[16], data[4096], out[4096], tw[4096];
static uint64_t s = 42;
static unsigned char rnd(void) { s = s * 6364136223846793005ULL + 1442695040888963407ULL; return (unsigned char)(s >> 33); }
static void secret(void *p, size_t n) { unsigned char *q = p; for (size_t i = 0; i < n; ++i) q[i] = rnd(); VALGRIND_MAKE_MEM_UNDEFINED(p, n); }
static void pub(void *p, size_t n) { VALGRIND_MAKE_MEM_DEFINED(p, n); }
static unsigned long ops = 0;

int main(int argc, char **argv)
{
    int quick = argc > 1 && !strcmp(argv[1], "quick");
    size_t sizes[] = {0, 1, 7, 8, 15, 16, 17, 63, 64, 65, 127, 128, 129, 300, 1024 + 5};
    int nsizes = sizeof(sizes) / sizeof(sizes[0]);
    for (int cap = 0; cap <= 2; ++cap) {
        _skinny_verif_backend_cap = cap;
        /* single block, all key lengths (including the in-between ones) */
        for (unsigned ks = 16; ks <= 48; ks += quick ? 8 : 1) {
            Skinny128Key_t k; secret(key, 48); secret(data, 16);
            skinny128_set_key(&k, key, ks); skinny128_ecb_encrypt(out, data, &k); skinny128_ecb_decrypt(out + 16, data, &k); pub(out, 32); ops += 3;
        }
        for (unsigned ks = 8; ks <= 24; ks += quick ? 4 : 1) {
            Skinny64Key_t k; secret(key, 24); secret(data, 8);
            skinny64_set_key(&k, key, ks); skinny64_ecb_encrypt(out, data, &k); skinny64_ecb_decrypt(out + 8, data, &k); pub(out, 16); ops += 3;
        }
        for (unsigned ks = 16; ks <= 32; ks += 8) {
            Skinny128TweakedKey_t t; secret(key, 32);
            skinny128_set_tweaked_key(&t, key, ks);
            for (unsigned tl = 1; tl <= 16; tl += quick ? 5 : 1) { secret(tweak, 16); secret(data, 16); skinny128_set_tweak(&t, tweak, tl); skinny128_ecb_encrypt(out, data, &t.ks); pub(out, 16); ops += 2; }
            skinny128_set_tweak(&t, NULL, 16); ops++;
        }
        for (unsigned ks = 8; ks <= 16; ks += 4) {
            Skinny64TweakedKey_t t; secret(key, 16);
            skinny64_set_tweaked_key(&t, key, ks);
            for (unsigned tl = 1; tl <= 8; tl += quick ? 3 : 1) { secret(tweak, 8); secret(data, 8); skinny64_set_tweak(&t, tweak, tl); skinny64_ecb_decrypt(out, data, &t.ks); pub(out, 8); ops += 2; }
        }
        for (unsigned r = 5; r <= 8; ++r) for (int mode = 0; mode <= 1; ++mode) {
            MantisKey_t m; secret(key, 16); secret(tweak, 8); secret(data, 8);
            mantis_set_key(&m, key, 16, r, mode); mantis_set_tweak(&m, tweak, 8); mantis_ecb_crypt(out, data, &m);
            secret(tweak, 8); mantis_ecb_crypt_tweaked(out + 8, data, tweak, &m); mantis_swap_modes(&m); mantis_ecb_crypt(out + 16, data, &m); pub(out, 24); ops += 6;
        }
        /* CTR: every call size class, split streams, counters of every length */
        for (int i = 0; i < nsizes; ++i) {
            size_t n = sizes[i];
            Skinny128CTR_t c; skinny128_ctr_init(&c); secret(key, 48); secret(ctrv, 16); secret(data, n + 40); secret(tweak, 16);
            skinny128_ctr_set_key(&c, key, 16 + (i % 3) * 16); skinny128_ctr_set_counter(&c, ctrv, i % 17);
            skinny128_ctr_encrypt(out, data, n, &c); skinny128_ctr_encrypt(out + n, data + n, 40, &c); pub(out, n + 40);
            skinny128_ctr_set_tweaked_key(&c, key, 16 + (i % 2) * 16); skinny128_ctr_set_tweak(&c, tweak, 1 + i % 16);
            skinny128_ctr_encrypt(out, data, n, &c); pub(out, n); skinny128_ctr_cleanup(&c); ops += 8;
            Skinny64CTR_t c64; skinny64_ctr_init(&c64); secret(key, 24); secret(ctrv, 8); secret(data, n + 40);
            skinny64_ctr_set_key(&c64, key, 8 + (i % 3) * 8); skinny64_ctr_set_counter(&c64, ctrv, i % 9);
            skinny64_ctr_encrypt(out, data, n, &c64); skinny64_ctr_encrypt(out + n, data + n, 40, &c64); pub(out, n + 40); skinny64_ctr_cleanup(&c64); ops += 5;
            MantisCTR_t mc; mantis_ctr_init(&mc); secret(key, 16); secret(ctrv, 8); secret(data, n + 40); secret(tweak, 8);
            mantis_ctr_set_key(&mc, key, 16, 5 + i % 4); mantis_ctr_set_tweak(&mc, tweak, 8); mantis_ctr_set_counter(&mc, ctrv, i % 9);
            mantis_ctr_encrypt(out, data, n, &mc); mantis_ctr_encrypt(out + n, data + n, 40, &mc); pub(out, n + 40); mantis_ctr_cleanup(&mc); ops += 6;
        }
        /* parallel ECB: block counts around the batch sizes */
        for (unsigned nb = 0; nb <= 18; nb += quick ? 3 : 1) {
            Skinny128ParallelECB_t p; skinny128_parallel_ecb_init(&p); secret(key, 48); secret(data, 16 * nb);
            skinny128_parallel_ecb_set_key(&p, key, 16 + (nb % 3) * 16); skinny128_parallel_ecb_encrypt(out, data, 16 * nb, &p); skinny128_parallel_ecb_decrypt(out, data, 16 * nb, &p); pub(out, 16 * nb); skinny128_parallel_ecb_cleanup(&p);
            Skinny64ParallelECB_t p64; skinny64_parallel_ecb_init(&p64); secret(key, 24); secret(data, 8 * nb);
            skinny64_parallel_ecb_set_key(&p64, key, 8 + (nb % 3) * 8); skinny64_parallel_ecb_encrypt(out, data, 8 * nb, &p64); skinny64_parallel_ecb_decrypt(out, data, 8 * nb, &p64); pub(out, 8 * nb); skinny64_parallel_ecb_cleanup(&p64);
            MantisParallelECB_t mp; mantis_parallel_ecb_init(&mp); secret(key, 16); secret(data, 8 * nb); secret(tw, 8 * nb);
            mantis_parallel_ecb_set_key(&mp, key, 16, 5 + nb % 4, nb & 1); mantis_parallel_ecb_crypt(out, data, tw, 8 * nb, &mp); mantis_parallel_ecb_swap_modes(&mp); mantis_parallel_ecb_crypt(out, data, tw, 8 * nb, &mp); pub(out, 8 * nb); mantis_parallel_ecb_cleanup(&mp);
            ops += 15;
        }
    }
    printf("taint-run ops=%lu\n", ops);
    return 0;
}
