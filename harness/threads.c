/* threads.c -- C18 oracle: the same work done sequentially and by concurrent threads (distinct
   objects per thread; one shared read-only key schedule and parallel-ECB object; concurrent
   initialisations).  Built with -fsanitize=thread; prints a digest per unit of work so that the
   caller can compare the concurrent run with the sequential one. */
#define _GNU_SOURCE
#include <stdio.h>
#include <stdlib.h>
#include <string.h>
#include <stdint.h>
#include <pthread.h>
#include "skinny128-cipher.h"
#include "skinny64-cipher.h"
#include "mantis-cipher.h"
#include "skinny128-parallel.h"
#include "skinny64-parallel.h"
#include "mantis-parallel.h"

#define NTHREADS 8
#define ROUNDS 40

static Skinny128Key_t shared_ks;
static Skinny64Key_t shared_ks64;
static MantisKey_t shared_mk;
static Skinny128ParallelECB_t shared_par;
static Skinny64ParallelECB_t shared_par64;
static MantisParallelECB_t shared_mpar;
static uint64_t seed0 = 1;

static uint64_t sm(uint64_t *s)
{
    uint64_t z = (*s += 0x9E3779B97F4A7C15ULL);
    z = (z ^ (z >> 30)) * 0xBF58476D1CE4E5B9ULL;
    z = (z ^ (z >> 27)) * 0x94D049BB133111EBULL;
    return z ^ (z >> 31);
}
static uint64_t fnv(uint64_t h, const unsigned char *p, size_t n)
{
    for (size_t i = 0; i < n; ++i) { h ^= p[i]; h *= 0x100000001B3ULL; }
    return h;
}

static uint64_t results[NTHREADS];

static void *work(void *arg)
{
    int id = (int)(intptr_t)arg;
    uint64_t s = seed0 * 1000 + id, h = 0xcbf29ce484222325ULL;
    unsigned char key[48], buf[512], out[512], ctrv[16];
    for (int r = 0; r < ROUNDS; ++r) {
        for (int i = 0; i < 48; ++i) key[i] = (unsigned char)sm(&s);
        for (int i = 0; i < 512; ++i) buf[i] = (unsigned char)sm(&s);
        for (int i = 0; i < 16; ++i) ctrv[i] = (unsigned char)sm(&s);
        /* own objects: concurrent initialisation, keying, processing, cleanup */
        Skinny128CTR_t c; Skinny64CTR_t c64; MantisCTR_t mc; Skinny64ParallelECB_t p64; MantisParallelECB_t mp;
        skinny128_ctr_init(&c); skinny128_ctr_set_key(&c, key, 16 + 16 * (r % 3)); skinny128_ctr_set_counter(&c, ctrv, 16);
        skinny128_ctr_encrypt(out, buf, 100 + (r * 7) % 300, &c); h = fnv(h, out, 100 + (r * 7) % 300); skinny128_ctr_cleanup(&c);
        skinny64_ctr_init(&c64); skinny64_ctr_set_key(&c64, key, 8 + 8 * (r % 3)); skinny64_ctr_set_counter(&c64, ctrv, 8);
        skinny64_ctr_encrypt(out, buf, 333, &c64); h = fnv(h, out, 333); skinny64_ctr_cleanup(&c64);
        mantis_ctr_init(&mc); mantis_ctr_set_key(&mc, key, 16, 5 + r % 4); mantis_ctr_set_tweak(&mc, key + 16, 8);
        mantis_ctr_encrypt(out, buf, 201, &mc); h = fnv(h, out, 201); mantis_ctr_cleanup(&mc);
        skinny64_parallel_ecb_init(&p64); skinny64_parallel_ecb_set_key(&p64, key, 16);
        skinny64_parallel_ecb_encrypt(out, buf, 8 * 21, &p64); h = fnv(h, out, 8 * 21); skinny64_parallel_ecb_cleanup(&p64);
        mantis_parallel_ecb_init(&mp); mantis_parallel_ecb_set_key(&mp, key, 16, 6, 1);
        mantis_parallel_ecb_crypt(out, buf, buf + 256, 8 * 19, &mp); h = fnv(h, out, 8 * 19); mantis_parallel_ecb_cleanup(&mp);
        /* shared read-only objects */
        skinny128_ecb_encrypt(out, buf, &shared_ks); skinny128_ecb_decrypt(out + 16, buf + 16, &shared_ks); h = fnv(h, out, 32);
        skinny64_ecb_encrypt(out, buf, &shared_ks64); h = fnv(h, out, 8);
        mantis_ecb_crypt(out, buf, &shared_mk); mantis_ecb_crypt_tweaked(out + 8, buf, key, &shared_mk); h = fnv(h, out, 16);
        skinny128_parallel_ecb_encrypt(out, buf, 16 * 13, &shared_par); h = fnv(h, out, 16 * 13);
        skinny128_parallel_ecb_decrypt(out, buf, 16 * 9, &shared_par); h = fnv(h, out, 16 * 9);
        skinny64_parallel_ecb_encrypt(out, buf, 8 * 11, &shared_par64); h = fnv(h, out, 8 * 11);
        skinny64_parallel_ecb_decrypt(out, buf, 8 * 21, &shared_par64); h = fnv(h, out, 8 * 21);
        /* a shared Mantis parallel object: every thread brings its own tweaks; counts leave left-over blocks */
        mantis_parallel_ecb_crypt(out, buf, key, 8 * 3, &shared_mpar); h = fnv(h, out, 8 * 3);
        mantis_parallel_ecb_crypt(out, buf, buf + 300, 8 * 13, &shared_mpar); h = fnv(h, out, 8 * 13);
        mantis_parallel_ecb_crypt(out, buf, buf + 300, 8 * 16, &shared_mpar); h = fnv(h, out, 8 * 16);
    }
    results[id] = h;
    return NULL;
}

int main(int argc, char **argv)
{
    int concurrent = argc > 1 && !strcmp(argv[1], "concurrent");
    if (argc > 2) seed0 = strtoull(argv[2], NULL, 10);
    unsigned char k[32];
    for (int i = 0; i < 32; ++i) k[i] = (unsigned char)(i * 11 + seed0);
    skinny128_set_key(&shared_ks, k, 32);
    skinny64_set_key(&shared_ks64, k, 24);
    mantis_set_key(&shared_mk, k, 16, 7, MANTIS_ENCRYPT);
    skinny128_parallel_ecb_init(&shared_par);
    skinny128_parallel_ecb_set_key(&shared_par, k, 16);
    skinny64_parallel_ecb_init(&shared_par64);
    skinny64_parallel_ecb_set_key(&shared_par64, k, 16);
    mantis_parallel_ecb_init(&shared_mpar);
    mantis_parallel_ecb_set_key(&shared_mpar, k, 16, 6, MANTIS_ENCRYPT);
    pthread_t th[NTHREADS];
    if (concurrent) {
        for (int i = 0; i < NTHREADS; ++i) pthread_create(&th[i], NULL, work, (void *)(intptr_t)i);
        for (int i = 0; i < NTHREADS; ++i) pthread_join(th[i], NULL);
    } else {
        for (int i = 0; i < NTHREADS; ++i) work((void *)(intptr_t)i);
    }
    for (int i = 0; i < NTHREADS; ++i) printf("thread %d digest %016llx\n", i, (unsigned long long)results[i]);
    skinny128_parallel_ecb_cleanup(&shared_par);
    skinny64_parallel_ecb_cleanup(&shared_par64);
    mantis_parallel_ecb_cleanup(&shared_mpar);
    return 0;
}
