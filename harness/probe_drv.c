/* probe_drv.c -- C13 oracle: calls the CPU probes of the compiled library in different calling
   contexts (arbitrary values in the registers the ABI does not define at entry) and reports what
   every init function selected, next to the host's CPUID facts obtained independently. */
#include <stdio.h>
#include <stdint.h>
#include <string.h>
#include <cpuid.h>
#include "skinny128-cipher.h"
#include "skinny64-cipher.h"
#include "mantis-cipher.h"
#include "skinny128-parallel.h"
#include "skinny64-parallel.h"
#include "mantis-parallel.h"

extern int _skinny_verif_backend_cap;
int _skinny_has_vec128(void);
int _skinny_has_vec256(void);
/* the vector vtables are external symbols */
extern const char _skinny128_ctr_vec128, _skinny128_ctr_vec256, _skinny64_ctr_vec128, _mantis_ctr_vec128;

typedef int (*probe4_t)(long, long, long, long);

static int host_sse2(void)
{
    unsigned a, b, c, d;
    if (!__get_cpuid(1, &a, &b, &c, &d)) return 0;
    return (d >> 26) & 1;
}
static int host_avx2_usable(void)
{
    unsigned a, b, c, d;
    if (__get_cpuid_max(0, 0) < 7) return 0;
    __cpuid(1, a, b, c, d);
    if (!((c >> 27) & 1)) return 0;           /* OSXSAVE */
    unsigned lo, hi;
    __asm__ __volatile__("xgetbv" : "=a"(lo), "=d"(hi) : "c"(0));
    if ((lo & 6) != 6) return 0;
    __cpuid_count(7, 0, a, b, c, d);
    return (b >> 5) & 1;
}

static const char *vt128(const void *v)
{
    if (v == (const void *)&_skinny128_ctr_vec128) return "vec128";
    if (v == (const void *)&_skinny128_ctr_vec256) return "vec256";
    return v ? "generic" : "null";
}

int main(void)
{
    long regs[] = {0, 1, 2, 3, 7, 0x7fffffffL, -1L, 0x123456789abcdefL};
    int n = sizeof(regs) / sizeof(regs[0]);
    printf("host sse2=%d avx2_usable=%d\n", host_sse2(), host_avx2_usable());
    for (int cap = 2; cap >= 0; --cap) {
        _skinny_verif_backend_cap = cap;
        for (int i = 0; i < n; ++i)
            for (int j = 0; j < n; j += 3) {
                int r128 = ((probe4_t)_skinny_has_vec128)(regs[j], regs[(i + j) % n], regs[(i + 2) % n], regs[i]);
                int r256 = ((probe4_t)_skinny_has_vec256)(regs[j], regs[(i + j) % n], regs[(i + 2) % n], regs[i]);
                printf("cap=%d rcx=%lx rdi=%lx has128=%d has256=%d\n", cap, regs[i], regs[j], r128, r256);
            }
        for (int rep = 0; rep < 2; ++rep) {
            Skinny128CTR_t c128; Skinny64CTR_t c64; MantisCTR_t mc;
            Skinny128ParallelECB_t p128; Skinny64ParallelECB_t p64; MantisParallelECB_t mp;
            memset(&c128, 0x5a, sizeof(c128)); memset(&c64, 0x5a, sizeof(c64)); memset(&mc, 0x5a, sizeof(mc));
            memset(&p128, 0x5a, sizeof(p128)); memset(&p64, 0x5a, sizeof(p64)); memset(&mp, 0x5a, sizeof(mp));
            /* init through a 4-argument pointer so that rsi, rdx, rcx hold chosen garbage at entry */
            int r1 = ((int (*)(void *, long, long, long))skinny128_ctr_init)(&c128, regs[rep + 1], regs[rep + 2], regs[rep + 3]);
            int r2 = ((int (*)(void *, long, long, long))skinny64_ctr_init)(&c64, regs[rep + 1], regs[rep + 2], regs[rep + 3]);
            int r3 = ((int (*)(void *, long, long, long))mantis_ctr_init)(&mc, regs[rep + 1], regs[rep + 2], regs[rep + 3]);
            int r4 = ((int (*)(void *, long, long, long))skinny128_parallel_ecb_init)(&p128, regs[rep + 1], regs[rep + 2], regs[rep + 3]);
            int r5 = ((int (*)(void *, long, long, long))skinny64_parallel_ecb_init)(&p64, regs[rep + 1], regs[rep + 2], regs[rep + 3]);
            int r6 = ((int (*)(void *, long, long, long))mantis_parallel_ecb_init)(&mp, regs[rep + 1], regs[rep + 2], regs[rep + 3]);
            printf("cap=%d rep=%d init=%d%d%d%d%d%d ctr128=%s ctr64=%s mctr=%s par128.vt=%s par128.psize=%zu par64.vt=%s par64.psize=%zu mpar.vt=%s mpar.psize=%zu\n",
                   cap, rep, r1, r2, r3, r4, r5, r6, vt128(c128.vtable),
                   c64.vtable == (const void *)&_skinny64_ctr_vec128 ? "vec128" : "generic",
                   mc.vtable == (const void *)&_mantis_ctr_vec128 ? "vec128" : "generic",
                   p128.vtable ? "vec" : "null", p128.parallel_size, p64.vtable ? "vec" : "null", p64.parallel_size,
                   mp.vtable ? "vec" : "null", mp.parallel_size);
            skinny128_ctr_cleanup(&c128); skinny64_ctr_cleanup(&c64); mantis_ctr_cleanup(&mc);
            skinny128_parallel_ecb_cleanup(&p128); skinny64_parallel_ecb_cleanup(&p64); mantis_parallel_ecb_cleanup(&mp);
        }
    }
    return 0;
}
