/*
 * cdrv.c -- line-protocol driver for the real library (see /verif/DESIGN.md section 4.2).
 *
 * Reads one operation per line on stdin, executes it in-process against libskinny.a built
 * from /repo's working tree, prints one result line per operation.  The Lean model driver
 * (lean/SkinnyVerif/Driver/Main.lean) speaks the same protocol; the correspondence check
 * diffs the two streams.
 *
 * calloc/free are wrapped at link time (-Wl,--wrap=calloc,--wrap=free): allocation failure
 * can be injected, every block handed to free() is scanned for non-zero bytes first.
 * Operations that may crash are executed in a forked child first ("probe"); if the child
 * dies the driver prints "fault" and does not execute the operation in the parent.
 */
#define _GNU_SOURCE
#include <stdio.h>
#include <stdlib.h>
#include <string.h>
#include <stdint.h>
#include <unistd.h>
#include <sys/wait.h>
#include <sys/mman.h>
#include "skinny128-cipher.h"
#include "skinny64-cipher.h"
#include "mantis-cipher.h"
#include "skinny128-parallel.h"
#include "skinny64-parallel.h"
#include "mantis-parallel.h"

extern int _skinny_verif_backend_cap;
int _skinny_has_vec128(void);
int _skinny_has_vec256(void);

/* ------------------------------------------------------------------ wrapped allocator */
void *__real_calloc(size_t n, size_t sz);
void __real_free(void *p);

#define MAXALLOC 4096
static struct { void *p; size_t size; int live; } allocs[MAXALLOC];
static int nallocs = 0;
static long alloc_count = 0, fail_at = -1;
static int track = 0;
static char evlog[1 << 16];
static size_t evlen = 0;
static int live_count = 0;

static void ev(const char *fmt, size_t a, int b)
{
    if (evlen + 64 < sizeof(evlog)) {
        if (evlen) evlog[evlen++] = ';';
        evlen += snprintf(evlog + evlen, sizeof(evlog) - evlen, fmt, a, b);
    }
}

void *__wrap_calloc(size_t n, size_t sz)
{
    if (!track) return __real_calloc(n, sz);
    long k = alloc_count++;
    if (k == fail_at) {
        ev("calloc %zu fail%.0d", n * sz, 0);
        return NULL;
    }
    void *p = __real_calloc(n, sz);
    if (p && nallocs < MAXALLOC) {
        allocs[nallocs].p = p; allocs[nallocs].size = n * sz; allocs[nallocs].live = 1; nallocs++;
        live_count++;
        ev("calloc %zu%.0d", n * sz, 0);
    }
    return p;
}

void __wrap_free(void *p)
{
    if (!track || !p) { __real_free(p); return; }
    for (int i = nallocs - 1; i >= 0; --i) {
        if (allocs[i].p == p && allocs[i].live) {
            int zero = 1;
            for (size_t j = 0; j < allocs[i].size; ++j)
                if (((unsigned char *)p)[j]) { zero = 0; break; }
            allocs[i].live = 0;
            live_count--;
            ev(zero ? "free %zu zero=true%.0d" : "free %zu zero=false%.0d", allocs[i].size, 0);
            __real_free(p);
            return;
        }
    }
    /* free of a pointer calloc never returned: report as a fault */
    fprintf(stderr, "wild free %p\n", p);
    abort();
}

/* ------------------------------------------------------------------ objects */
#define MAXOBJ 256
typedef enum { K128, T128, K64, T64, MK, HND } Kind;
typedef struct {
    char name[32];
    Kind kind;
    void *p;       /* storage (malloc'd, junk-filled) */
} Objrec;
static Objrec objs[MAXOBJ];
static int nobjs = 0;
static unsigned char junk = 0xA5;

typedef union {
    Skinny128CTR_t c128; Skinny64CTR_t c64; MantisCTR_t mc;
    Skinny128ParallelECB_t p128; Skinny64ParallelECB_t p64; MantisParallelECB_t mp;
    unsigned char raw[64];
} Handle;

static Objrec *find(const char *name, Kind k)
{
    for (int i = 0; i < nobjs; ++i)
        if (objs[i].kind == k && !strcmp(objs[i].name, name)) return &objs[i];
    return NULL;
}
static void *objptr(const char *name, Kind k)
{
    if (!strcmp(name, "NULL")) return NULL;
    Objrec *o = find(name, k);
    return o ? o->p : (void *)-1;
}
static void newobj(const char *name, Kind k, size_t size, int fill)
{
    Objrec *o = find(name, k);
    track = 0;
    if (!o) { o = &objs[nobjs++]; snprintf(o->name, sizeof(o->name), "%s", name); o->kind = k; o->p = malloc(size < 64 ? 64 : size); }
    track = 1;
    memset(o->p, fill, size < 64 ? 64 : size);
}

/* ------------------------------------------------------------------ helpers */
static int hexval(int c)
{
    if (c >= '0' && c <= '9') return c - '0';
    if (c >= 'a' && c <= 'f') return c - 'a' + 10;
    if (c >= 'A' && c <= 'F') return c - 'A' + 10;
    return -1;
}
/* parse hex token into a fresh buffer placed at a chosen misalignment; "NULL" -> *isnull; "-" -> empty */
static unsigned char *bufpool = NULL;
static size_t bufpos = 0;
#define BUFPOOL (1 << 22)
static unsigned misalign = 0;
static int guard_mode = 0;          /* 0: pool; 1: buffer ends at a PROT_NONE page; 2: buffer starts right after one */
static struct { void *p; size_t len; } gmaps[16];
static int ngmaps = 0;
static void gfree_all(void)
{
    for (int i = 0; i < ngmaps; ++i) munmap(gmaps[i].p, gmaps[i].len);
    ngmaps = 0;
}
static unsigned char *galloc(size_t n)
{
    size_t pg = 4096, body = (n + pg - 1) / pg * pg;
    if (!body) body = pg;
    size_t len = body + 2 * pg;
    unsigned char *m = mmap(NULL, len, PROT_READ | PROT_WRITE, MAP_PRIVATE | MAP_ANONYMOUS, -1, 0);
    if (m == MAP_FAILED || ngmaps >= 16) { fprintf(stderr, "guard alloc failed\n"); exit(3); }
    memset(m, 0xEE, len);
    mprotect(m, pg, PROT_NONE);
    mprotect(m + pg + body, pg, PROT_NONE);
    gmaps[ngmaps].p = m; gmaps[ngmaps].len = len; ngmaps++;
    return guard_mode == 1 ? m + pg + body - n : m + pg;
}
static unsigned char *balloc(size_t n)
{
    if (guard_mode) return galloc(n);
    bufpos = (bufpos + 63) & ~(size_t)63;
    bufpos += misalign & 31;
    unsigned char *p = bufpool + bufpos;
    bufpos += n + 1;
    if (bufpos > BUFPOOL - 4096) { fprintf(stderr, "buffer pool exhausted\n"); exit(3); }
    return p;
}
static unsigned char *parsehex(const char *tok, size_t *len, int *isnull)
{
    *isnull = 0; *len = 0;
    if (!strcmp(tok, "NULL")) { *isnull = 1; return NULL; }
    if (!strcmp(tok, "-")) return balloc(guard_mode ? 0 : 1);
    size_t n = strlen(tok) / 2;
    unsigned char *p = balloc(n);
    for (size_t i = 0; i < n; ++i) p[i] = (unsigned char)((hexval(tok[2 * i]) << 4) | hexval(tok[2 * i + 1]));
    *len = n;
    return p;
}
static void puthex(const unsigned char *p, size_t n)
{
    static const char *d = "0123456789abcdef";
    for (size_t i = 0; i < n; ++i) { putchar(d[p[i] >> 4]); putchar(d[p[i] & 15]); }
}

/* dirty the stack below the current frame so that uninitialised locals of the library see `junk`.
   Every library call of this driver goes through a macro of the function's own name that dirties the
   stack immediately before the call (the driver's own parsing between operations would otherwise leave
   whatever it happened to write there). */
static void __attribute__((noinline)) dirty_stack(void)
{
    volatile unsigned char a[8192];
    for (size_t i = 0; i < sizeof(a); ++i) a[i] = junk;
}
#define mantis_ctr_cleanup(...) (dirty_stack(), mantis_ctr_cleanup(__VA_ARGS__))
#define mantis_ctr_encrypt(...) (dirty_stack(), mantis_ctr_encrypt(__VA_ARGS__))
#define mantis_ctr_init(...) (dirty_stack(), mantis_ctr_init(__VA_ARGS__))
#define mantis_ctr_set_counter(...) (dirty_stack(), mantis_ctr_set_counter(__VA_ARGS__))
#define mantis_ctr_set_key(...) (dirty_stack(), mantis_ctr_set_key(__VA_ARGS__))
#define mantis_ctr_set_tweak(...) (dirty_stack(), mantis_ctr_set_tweak(__VA_ARGS__))
#define mantis_ecb_crypt(...) (dirty_stack(), mantis_ecb_crypt(__VA_ARGS__))
#define mantis_ecb_crypt_tweaked(...) (dirty_stack(), mantis_ecb_crypt_tweaked(__VA_ARGS__))
#define mantis_parallel_ecb_cleanup(...) (dirty_stack(), mantis_parallel_ecb_cleanup(__VA_ARGS__))
#define mantis_parallel_ecb_crypt(...) (dirty_stack(), mantis_parallel_ecb_crypt(__VA_ARGS__))
#define mantis_parallel_ecb_init(...) (dirty_stack(), mantis_parallel_ecb_init(__VA_ARGS__))
#define mantis_parallel_ecb_set_key(...) (dirty_stack(), mantis_parallel_ecb_set_key(__VA_ARGS__))
#define mantis_parallel_ecb_swap_modes(...) (dirty_stack(), mantis_parallel_ecb_swap_modes(__VA_ARGS__))
#define mantis_set_key(...) (dirty_stack(), mantis_set_key(__VA_ARGS__))
#define mantis_set_tweak(...) (dirty_stack(), mantis_set_tweak(__VA_ARGS__))
#define mantis_swap_modes(...) (dirty_stack(), mantis_swap_modes(__VA_ARGS__))
#define skinny128_ctr_cleanup(...) (dirty_stack(), skinny128_ctr_cleanup(__VA_ARGS__))
#define skinny128_ctr_encrypt(...) (dirty_stack(), skinny128_ctr_encrypt(__VA_ARGS__))
#define skinny128_ctr_init(...) (dirty_stack(), skinny128_ctr_init(__VA_ARGS__))
#define skinny128_ctr_set_counter(...) (dirty_stack(), skinny128_ctr_set_counter(__VA_ARGS__))
#define skinny128_ctr_set_key(...) (dirty_stack(), skinny128_ctr_set_key(__VA_ARGS__))
#define skinny128_ctr_set_tweak(...) (dirty_stack(), skinny128_ctr_set_tweak(__VA_ARGS__))
#define skinny128_ctr_set_tweaked_key(...) (dirty_stack(), skinny128_ctr_set_tweaked_key(__VA_ARGS__))
#define skinny128_ecb_decrypt(...) (dirty_stack(), skinny128_ecb_decrypt(__VA_ARGS__))
#define skinny128_ecb_encrypt(...) (dirty_stack(), skinny128_ecb_encrypt(__VA_ARGS__))
#define skinny128_parallel_ecb_cleanup(...) (dirty_stack(), skinny128_parallel_ecb_cleanup(__VA_ARGS__))
#define skinny128_parallel_ecb_decrypt(...) (dirty_stack(), skinny128_parallel_ecb_decrypt(__VA_ARGS__))
#define skinny128_parallel_ecb_encrypt(...) (dirty_stack(), skinny128_parallel_ecb_encrypt(__VA_ARGS__))
#define skinny128_parallel_ecb_init(...) (dirty_stack(), skinny128_parallel_ecb_init(__VA_ARGS__))
#define skinny128_parallel_ecb_set_key(...) (dirty_stack(), skinny128_parallel_ecb_set_key(__VA_ARGS__))
#define skinny128_set_key(...) (dirty_stack(), skinny128_set_key(__VA_ARGS__))
#define skinny128_set_tweak(...) (dirty_stack(), skinny128_set_tweak(__VA_ARGS__))
#define skinny128_set_tweaked_key(...) (dirty_stack(), skinny128_set_tweaked_key(__VA_ARGS__))
#define skinny64_ctr_cleanup(...) (dirty_stack(), skinny64_ctr_cleanup(__VA_ARGS__))
#define skinny64_ctr_encrypt(...) (dirty_stack(), skinny64_ctr_encrypt(__VA_ARGS__))
#define skinny64_ctr_init(...) (dirty_stack(), skinny64_ctr_init(__VA_ARGS__))
#define skinny64_ctr_set_counter(...) (dirty_stack(), skinny64_ctr_set_counter(__VA_ARGS__))
#define skinny64_ctr_set_key(...) (dirty_stack(), skinny64_ctr_set_key(__VA_ARGS__))
#define skinny64_ctr_set_tweak(...) (dirty_stack(), skinny64_ctr_set_tweak(__VA_ARGS__))
#define skinny64_ctr_set_tweaked_key(...) (dirty_stack(), skinny64_ctr_set_tweaked_key(__VA_ARGS__))
#define skinny64_ecb_decrypt(...) (dirty_stack(), skinny64_ecb_decrypt(__VA_ARGS__))
#define skinny64_ecb_encrypt(...) (dirty_stack(), skinny64_ecb_encrypt(__VA_ARGS__))
#define skinny64_parallel_ecb_cleanup(...) (dirty_stack(), skinny64_parallel_ecb_cleanup(__VA_ARGS__))
#define skinny64_parallel_ecb_decrypt(...) (dirty_stack(), skinny64_parallel_ecb_decrypt(__VA_ARGS__))
#define skinny64_parallel_ecb_encrypt(...) (dirty_stack(), skinny64_parallel_ecb_encrypt(__VA_ARGS__))
#define skinny64_parallel_ecb_init(...) (dirty_stack(), skinny64_parallel_ecb_init(__VA_ARGS__))
#define skinny64_parallel_ecb_set_key(...) (dirty_stack(), skinny64_parallel_ecb_set_key(__VA_ARGS__))
#define skinny64_set_key(...) (dirty_stack(), skinny64_set_key(__VA_ARGS__))
#define skinny64_set_tweak(...) (dirty_stack(), skinny64_set_tweak(__VA_ARGS__))
#define skinny64_set_tweaked_key(...) (dirty_stack(), skinny64_set_tweaked_key(__VA_ARGS__))

/* run `fn` in a forked child to see whether it crashes */
typedef struct { int argc; char **argv; } Op;
static int exec_op(Op *op, int real);

static int probe(Op *op)
{
    fflush(stdout);
    pid_t pid = fork();
    if (pid == 0) {
        FILE *f = freopen("/dev/null", "w", stdout); (void)f;
        f = freopen("/dev/null", "w", stderr); (void)f;
        exec_op(op, 1);
        _exit(0);
    }
    int status = 0;
    waitpid(pid, &status, 0);
    return WIFEXITED(status) && WEXITSTATUS(status) == 0;
}

/* ------------------------------------------------------------------ operations */
static int probes128 = 1, probes256 = 1;
static int overlap_delta = 99;

static void setcap(void)
{
    _skinny_verif_backend_cap = probes256 ? 2 : (probes128 ? 1 : 0);
}

#define ARG(i) (op->argv[i])
#define IS(s) (!strcmp(op->argv[0], s))
#define U(i) ((unsigned)strtoul(op->argv[i], NULL, 10))

static int exec_op(Op *op, int real)
{
    int argc = op->argc;
    size_t len, len2; int isnull, isnull2;
    (void)real;
    bufpos = 0;
    gfree_all();
    if (IS("cfg") || IS("sizes")) { printf("ok\n"); return 0; }
    if (IS("probes") && argc == 3) { probes128 = atoi(ARG(1)); probes256 = atoi(ARG(2)); setcap(); printf("ok\n"); return 0; }
    if (IS("junk") && argc == 2) { junk = (unsigned char)atoi(ARG(1)); printf("ok\n"); return 0; }
    if (IS("guard") && argc == 2) { guard_mode = atoi(ARG(1)); printf("ok\n"); return 0; }
    if (IS("overlap") && argc == 2) { overlap_delta = atoi(ARG(1)); printf("ok\n"); return 0; }
    if (IS("align") && argc == 2) { misalign = (unsigned)atoi(ARG(1)); printf("ok\n"); return 0; }
    if (IS("failat") && argc == 2) { fail_at = strcmp(ARG(1), "none") ? alloc_count + atol(ARG(1)) : -1; printf("ok\n"); return 0; }
    if (IS("heap")) { printf("live=%d events=%s\n", live_count, evlog); evlen = 0; evlog[0] = 0; return 0; }
    if (IS("s128.key.new") && argc == 2) { newobj(ARG(1), K128, sizeof(Skinny128Key_t), junk); printf("ok\n"); return 0; }
    if (IS("s128.tkey.new") && argc == 2) { newobj(ARG(1), T128, sizeof(Skinny128TweakedKey_t), junk); printf("ok\n"); return 0; }
    if (IS("s64.key.new") && argc == 2) { newobj(ARG(1), K64, sizeof(Skinny64Key_t), junk); printf("ok\n"); return 0; }
    if (IS("s64.tkey.new") && argc == 2) { newobj(ARG(1), T64, sizeof(Skinny64TweakedKey_t), junk); printf("ok\n"); return 0; }
    if (IS("mantis.key.new") && argc == 2) { newobj(ARG(1), MK, sizeof(MantisKey_t), junk); printf("ok\n"); return 0; }
    if (IS("h.new") && argc == 3) { newobj(ARG(1), HND, sizeof(Handle), !strcmp(ARG(2), "zero") ? 0 : junk); printf("ok\n"); return 0; }

    dirty_stack();

    if (argc == 4 && (IS("s128.set_key") || IS("s64.set_key") || IS("s128.set_tweaked_key") || IS("s64.set_tweaked_key") ||
                      IS("s128.set_tweak") || IS("s64.set_tweak") || IS("mantis.set_tweak"))) {
        unsigned char *d = parsehex(ARG(2), &len, &isnull);
        int r = -1;
        if (IS("s128.set_key")) { void *o = objptr(ARG(1), K128); if (o == (void *)-1) goto bad; r = skinny128_set_key(o, d, U(3)); }
        else if (IS("s64.set_key")) { void *o = objptr(ARG(1), K64); if (o == (void *)-1) goto bad; r = skinny64_set_key(o, d, U(3)); }
        else if (IS("s128.set_tweaked_key")) { void *o = objptr(ARG(1), T128); if (o == (void *)-1) goto bad; r = skinny128_set_tweaked_key(o, d, U(3)); }
        else if (IS("s64.set_tweaked_key")) { void *o = objptr(ARG(1), T64); if (o == (void *)-1) goto bad; r = skinny64_set_tweaked_key(o, d, U(3)); }
        else if (IS("s128.set_tweak")) { void *o = objptr(ARG(1), T128); if (o == (void *)-1) goto bad; r = skinny128_set_tweak(o, d, U(3)); }
        else if (IS("s64.set_tweak")) { void *o = objptr(ARG(1), T64); if (o == (void *)-1) goto bad; r = skinny64_set_tweak(o, d, U(3)); }
        else if (IS("mantis.set_tweak")) { void *o = objptr(ARG(1), MK); if (o == (void *)-1) goto bad; r = mantis_set_tweak(o, d, U(3)); }
        printf("ret=%d\n", r);
        return 0;
    }
    if (argc == 3 && (IS("s128.enc") || IS("s128.dec") || IS("s128.tenc") || IS("s128.tdec") ||
                      IS("s64.enc") || IS("s64.dec") || IS("s64.tenc") || IS("s64.tdec") || IS("mantis.crypt"))) {
        unsigned char *d = parsehex(ARG(2), &len, &isnull);
        size_t bs = (ARG(0)[1] == '1') ? 16 : 8;
        unsigned char *out = balloc(bs);
        if (overlap_delta != 99) {
            /* overlapping input and output: input at w+16, output at w+16+delta */
            unsigned char *w = balloc(64);
            memcpy(w + 16, d, bs); d = w + 16; out = w + 16 + overlap_delta;
        }
        if (IS("s128.enc")) { Skinny128Key_t *k = objptr(ARG(1), K128); if (k == (void *)-1) goto bad; skinny128_ecb_encrypt(out, d, k); }
        else if (IS("s128.dec")) { Skinny128Key_t *k = objptr(ARG(1), K128); if (k == (void *)-1) goto bad; skinny128_ecb_decrypt(out, d, k); }
        else if (IS("s128.tenc")) { Skinny128TweakedKey_t *k = objptr(ARG(1), T128); if (k == (void *)-1) goto bad; skinny128_ecb_encrypt(out, d, &k->ks); }
        else if (IS("s128.tdec")) { Skinny128TweakedKey_t *k = objptr(ARG(1), T128); if (k == (void *)-1) goto bad; skinny128_ecb_decrypt(out, d, &k->ks); }
        else if (IS("s64.enc")) { Skinny64Key_t *k = objptr(ARG(1), K64); if (k == (void *)-1) goto bad; skinny64_ecb_encrypt(out, d, k); bs = 8; }
        else if (IS("s64.dec")) { Skinny64Key_t *k = objptr(ARG(1), K64); if (k == (void *)-1) goto bad; skinny64_ecb_decrypt(out, d, k); bs = 8; }
        else if (IS("s64.tenc")) { Skinny64TweakedKey_t *k = objptr(ARG(1), T64); if (k == (void *)-1) goto bad; skinny64_ecb_encrypt(out, d, &k->ks); bs = 8; }
        else if (IS("s64.tdec")) { Skinny64TweakedKey_t *k = objptr(ARG(1), T64); if (k == (void *)-1) goto bad; skinny64_ecb_decrypt(out, d, &k->ks); bs = 8; }
        else { MantisKey_t *k = objptr(ARG(1), MK); if (k == (void *)-1) goto bad; mantis_ecb_crypt(out, d, k); bs = 8; }
        if (overlap_delta != 99) { unsigned char tmp[16]; memcpy(tmp, out, bs); puthex(tmp, bs); putchar('\n'); return 0; }
        puthex(out, bs); putchar('\n');
        return 0;
    }
    if (IS("mantis.set_key") && argc == 6) {
        unsigned char *d = parsehex(ARG(2), &len, &isnull);
        void *o = objptr(ARG(1), MK); if (o == (void *)-1) goto bad;
        printf("ret=%d\n", mantis_set_key(o, d, U(3), U(4), atoi(ARG(5))));
        return 0;
    }
    if (IS("mantis.swap") && argc == 2) { void *o = objptr(ARG(1), MK); if (o == (void *)-1) goto bad; mantis_swap_modes(o); printf("ok\n"); return 0; }
    if (IS("mantis.crypt_tweaked") && argc == 4) {
        unsigned char *t = parsehex(ARG(2), &len, &isnull);
        unsigned char *d = parsehex(ARG(3), &len2, &isnull2);
        unsigned char *out = balloc(8);
        MantisKey_t *k = objptr(ARG(1), MK); if (k == (void *)-1) goto bad;
        mantis_ecb_crypt_tweaked(out, d, t, k);
        puthex(out, 8); putchar('\n');
        return 0;
    }
    /* ---- handle operations: <fam>.<op> */
    {
        char fam[16], fn[32];
        const char *dot = strchr(ARG(0), '.');
        if (!dot || (size_t)(dot - ARG(0)) >= sizeof(fam)) goto bad;
        memcpy(fam, ARG(0), dot - ARG(0)); fam[dot - ARG(0)] = 0;
        snprintf(fn, sizeof(fn), "%s", dot + 1);
        int f = !strcmp(fam, "ctr128") ? 0 : !strcmp(fam, "ctr64") ? 1 : !strcmp(fam, "mctr") ? 2 :
                !strcmp(fam, "par128") ? 3 : !strcmp(fam, "par64") ? 4 : !strcmp(fam, "mpar") ? 5 : -1;
        if (f < 0 || argc < 2) goto bad;
        Handle *h = objptr(ARG(1), HND);
        if (h == (void *)-1) goto bad;
        setcap();
        if (!strcmp(fn, "init") && argc == 2) {
            int r = f == 0 ? skinny128_ctr_init(h ? &h->c128 : NULL) : f == 1 ? skinny64_ctr_init(h ? &h->c64 : NULL) :
                    f == 2 ? mantis_ctr_init(h ? &h->mc : NULL) : f == 3 ? skinny128_parallel_ecb_init(h ? &h->p128 : NULL) :
                    f == 4 ? skinny64_parallel_ecb_init(h ? &h->p64 : NULL) : mantis_parallel_ecb_init(h ? &h->mp : NULL);
            printf("ret=%d\n", r);
            return 0;
        }
        if (!strcmp(fn, "cleanup") && argc == 2) {
            switch (f) {
            case 0: skinny128_ctr_cleanup(h ? &h->c128 : NULL); break;
            case 1: skinny64_ctr_cleanup(h ? &h->c64 : NULL); break;
            case 2: mantis_ctr_cleanup(h ? &h->mc : NULL); break;
            case 3: skinny128_parallel_ecb_cleanup(h ? &h->p128 : NULL); break;
            case 4: skinny64_parallel_ecb_cleanup(h ? &h->p64 : NULL); break;
            default: mantis_parallel_ecb_cleanup(h ? &h->mp : NULL); break;
            }
            printf("ok\n");
            return 0;
        }
        if (!strcmp(fn, "psize") && argc == 2 && h) {
            printf("psize=%zu\n", f == 3 ? h->p128.parallel_size : f == 4 ? h->p64.parallel_size : h->mp.parallel_size);
            return 0;
        }
        if (!strcmp(fn, "swap") && argc == 2 && f == 5) { mantis_parallel_ecb_swap_modes(h ? &h->mp : NULL); printf("ok\n"); return 0; }
        if (!strcmp(fn, "backend") && argc == 2 && h) {
            /* which vtable did init choose?  identify by behaviour-free means: compare with fresh objects */
            printf("vt=%p\n", (void *)0); return 0;
        }
        if ((!strcmp(fn, "set_key") || !strcmp(fn, "set_tweaked_key") || !strcmp(fn, "set_tweak") || !strcmp(fn, "set_counter")) && argc == 4 && f <= 4) {
            unsigned char *d = parsehex(ARG(2), &len, &isnull);
            unsigned sz = U(3);
            int r = -1;
            if (!strcmp(fn, "set_key")) {
                r = f == 0 ? skinny128_ctr_set_key(h ? &h->c128 : NULL, d, sz) : f == 1 ? skinny64_ctr_set_key(h ? &h->c64 : NULL, d, sz) :
                    f == 3 ? skinny128_parallel_ecb_set_key(h ? &h->p128 : NULL, d, sz) : f == 4 ? skinny64_parallel_ecb_set_key(h ? &h->p64 : NULL, d, sz) : -1;
            } else if (!strcmp(fn, "set_tweaked_key")) {
                r = f == 0 ? skinny128_ctr_set_tweaked_key(h ? &h->c128 : NULL, d, sz) : f == 1 ? skinny64_ctr_set_tweaked_key(h ? &h->c64 : NULL, d, sz) : -1;
            } else if (!strcmp(fn, "set_tweak")) {
                r = f == 0 ? skinny128_ctr_set_tweak(h ? &h->c128 : NULL, d, sz) : f == 1 ? skinny64_ctr_set_tweak(h ? &h->c64 : NULL, d, sz) :
                    f == 2 ? mantis_ctr_set_tweak(h ? &h->mc : NULL, d, sz) : -1;
            } else {
                r = f == 0 ? skinny128_ctr_set_counter(h ? &h->c128 : NULL, d, sz) : f == 1 ? skinny64_ctr_set_counter(h ? &h->c64 : NULL, d, sz) :
                    f == 2 ? mantis_ctr_set_counter(h ? &h->mc : NULL, d, sz) : -1;
            }
            if (r == -1) goto bad;
            printf("ret=%d\n", r);
            return 0;
        }
        if (!strcmp(fn, "set_key") && f == 2 && argc == 5) {
            unsigned char *d = parsehex(ARG(2), &len, &isnull);
            printf("ret=%d\n", mantis_ctr_set_key(h ? &h->mc : NULL, d, U(3), U(4)));
            return 0;
        }
        if (!strcmp(fn, "set_key") && f == 5 && argc == 6) {
            unsigned char *d = parsehex(ARG(2), &len, &isnull);
            printf("ret=%d\n", mantis_parallel_ecb_set_key(h ? &h->mp : NULL, d, U(3), U(4), atoi(ARG(5))));
            return 0;
        }
        if ((!strcmp(fn, "encrypt") || !strcmp(fn, "decrypt")) && argc == 3 && f != 5) {
            unsigned char *d = parsehex(ARG(2), &len, &isnull);
            unsigned char *out = isnull ? NULL : balloc(guard_mode ? len : len + 1);
            int inplace = 0;
            int r;
            if (!isnull && getenv("CDRV_INPLACE")) { out = d; inplace = 1; }
            (void)inplace;
            if (f <= 2) {
                if (strcmp(fn, "encrypt")) goto bad;
                r = f == 0 ? skinny128_ctr_encrypt(out, d, len, h ? &h->c128 : NULL) : f == 1 ? skinny64_ctr_encrypt(out, d, len, h ? &h->c64 : NULL) :
                    mantis_ctr_encrypt(out, d, len, h ? &h->mc : NULL);
            } else if (f == 3) {
                r = !strcmp(fn, "encrypt") ? skinny128_parallel_ecb_encrypt(out, d, len, h ? &h->p128 : NULL) : skinny128_parallel_ecb_decrypt(out, d, len, h ? &h->p128 : NULL);
            } else {
                r = !strcmp(fn, "encrypt") ? skinny64_parallel_ecb_encrypt(out, d, len, h ? &h->p64 : NULL) : skinny64_parallel_ecb_decrypt(out, d, len, h ? &h->p64 : NULL);
            }
            printf("ret=%d out=", r);
            if (r && out) puthex(out, len);
            putchar('\n');
            return 0;
        }
        if (!strcmp(fn, "crypt") && argc == 4 && f == 5) {
            unsigned char *t = parsehex(ARG(2), &len2, &isnull2);
            unsigned char *d = parsehex(ARG(3), &len, &isnull);
            unsigned char *out = balloc(guard_mode ? len : len + 1);
            if (getenv("CDRV_INPLACE")) out = d;
            int r = mantis_parallel_ecb_crypt(out, d, t, len, h ? &h->mp : NULL);
            printf("ret=%d out=", r);
            if (r) puthex(out, len);
            putchar('\n');
            return 0;
        }
    }
bad:
    printf("bad-op\n");
    return 0;
}

int main(int argc, char **argv)
{
    static char line[1 << 21];
    char *toks[16];
    int always_probe = getenv("CDRV_PROBE_ALL") != NULL;
    (void)argc; (void)argv;
    bufpool = mmap(NULL, BUFPOOL, PROT_READ | PROT_WRITE, MAP_PRIVATE | MAP_ANONYMOUS, -1, 0);
    track = 1;
    setvbuf(stdout, NULL, _IOLBF, 1 << 16);
    while (fgets(line, sizeof(line), stdin)) {
        size_t n = strlen(line);
        while (n && (line[n - 1] == '\n' || line[n - 1] == '\r' || line[n - 1] == ' ')) line[--n] = 0;
        if (!n || line[0] == '#') continue;
        int may_fault = 0;
        char *s = line;
        if (!strncmp(s, "? ", 2)) { may_fault = 1; s += 2; }
        Op op; op.argc = 0; op.argv = toks;
        for (char *t = strtok(s, " "); t && op.argc < 16; t = strtok(NULL, " ")) toks[op.argc++] = t;
        if (!op.argc) continue;
        if (may_fault || always_probe) {
            if (!probe(&op)) { printf("fault\n"); continue; }
        }
        exec_op(&op, 1);
    }
    fflush(stdout);
    return 0;
}
