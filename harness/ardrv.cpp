/*
 * ardrv.cpp -- line-protocol driver for the Arduino C++ port of skinny-c
 * (/repo/arduino/libraries/Skinny), portable (non-AVR) code path, built on the host.
 *
 * Speaks the same protocol as cdrv.c (one operation per line on stdin, one result line per
 * operation on stdout), restricted to what the Arduino classes offer:
 *
 *   Skinny128_128/_256/_384, Skinny128_256_Tweaked/_384_Tweaked,
 *   Skinny64_64/_128/_192,   Skinny64_128_Tweaked/_192_Tweaked,
 *   Mantis8, CTR<T>.
 *
 * Build (no shims needed; ProgMemUtil.h / EndianUtil.h already have a non-AVR branch):
 *
 *   L=/repo/arduino/libraries/Skinny
 *   g++ -O1 -I$L -I$L/utility ardrv.cpp $L/[A-Z]*.cpp -o ardrv      (i.e. every .cpp in $L)
 *
 * Result conventions:
 *   "ok"            housekeeping operations
 *   "ret=1"/"ret=0" bool-returning methods
 *   <hex>           block operations
 *   "out=<hex>"     ctr.encrypt
 *   "undef"         the Arduino API has no defined behaviour for this request: no object in the
 *                   slot yet, a size the class family does not offer, a buffer that is NULL or
 *                   shorter than what the method would read, or a CTR object whose key / counter
 *                   bytes are still indeterminate (constructors do not initialise them)
 *   "bad-op"        unknown operation, wrong token count, malformed hex / number, unknown slot name
 */
#include <stdio.h>
#include <stdlib.h>
#include <string.h>
#include <stdint.h>
#include <string>
#include <vector>
#include <map>
#include <iostream>

#include "Skinny128.h"
#include "Skinny64.h"
#include "Mantis8.h"
#include "CTR.h"

/* ------------------------------------------------------------------ slots */
struct Plain128 { BlockCipher *c; Plain128() : c(0) {} };
struct Tweak128 { Skinny128_Tweaked *c; Tweak128() : c(0) {} };
struct Plain64  { BlockCipher *c; Plain64() : c(0) {} };
struct Tweak64  { Skinny64_Tweaked *c; Tweak64() : c(0) {} };
struct MantisSlot { Mantis8 *c; MantisSlot() : c(0) {} };
struct CtrSlot {
    CTRCommon *c;
    bool keyDefined;   /* key schedule bytes are determinate (successful setKey, or clear()) */
    bool ivDefined;    /* counter bytes are determinate (successful setIV, or clear()) */
    CtrSlot() : c(0), keyDefined(false), ivDefined(false) {}
};

static std::map<std::string, Plain128> k128;
static std::map<std::string, Tweak128> t128;
static std::map<std::string, Plain64> k64;
static std::map<std::string, Tweak64> t64;
static std::map<std::string, MantisSlot> mk;
static std::map<std::string, CtrSlot> ctrs;

template <typename M>
static typename M::mapped_type *findSlot(M &m, const std::string &name)
{
    typename M::iterator it = m.find(name);
    return it == m.end() ? 0 : &it->second;
}

/* create the slot, or forget whatever object it currently holds */
template <typename M>
static void newSlot(M &m, const std::string &name)
{
    typename M::mapped_type &s = m[name];
    delete s.c;
    s = typename M::mapped_type();
}

/* ------------------------------------------------------------------ helpers */
typedef std::vector<std::string> Toks;

struct Bytes {
    std::vector<uint8_t> v;   /* always has >= 1 element of backing store */
    bool isnull;
    Bytes() : v(1, 0), isnull(false) {}
    size_t len() const { return isnull ? 0 : v.size() - 1; }
    const uint8_t *ptr() const { return isnull ? 0 : &v[0]; }
};

static int hexval(int c)
{
    if (c >= '0' && c <= '9') return c - '0';
    if (c >= 'a' && c <= 'f') return c - 'a' + 10;
    if (c >= 'A' && c <= 'F') return c - 'A' + 10;
    return -1;
}

/* "NULL" -> null pointer, "-" -> empty, otherwise hex; false if malformed */
static bool parseHex(const std::string &tok, Bytes &b)
{
    b = Bytes();
    if (tok == "NULL") { b.isnull = true; return true; }
    if (tok == "-") return true;
    if (tok.empty() || (tok.size() & 1)) return false;
    size_t n = tok.size() / 2;
    b.v.assign(n + 1, 0);
    for (size_t i = 0; i < n; ++i) {
        int hi = hexval(tok[2 * i]), lo = hexval(tok[2 * i + 1]);
        if (hi < 0 || lo < 0) return false;
        b.v[i] = (uint8_t)((hi << 4) | lo);
    }
    return true;
}

static bool parseNum(const std::string &tok, long &out)
{
    if (tok.empty()) return false;
    char *end = 0;
    out = strtol(tok.c_str(), &end, 10);
    return end && *end == 0;
}

static void putHex(const uint8_t *p, size_t n)
{
    static const char *d = "0123456789abcdef";
    for (size_t i = 0; i < n; ++i) { putchar(d[p[i] >> 4]); putchar(d[p[i] & 15]); }
}

static const char *const OK = "ok";
static const char *const UNDEF = "undef";
static const char *const BAD = "bad-op";
static const char *ret(bool r) { return r ? "ret=1" : "ret=0"; }

/* a key/tweak/block pointer from which the method will read `need` bytes */
static bool readable(const Bytes &b, size_t need)
{
    return !b.isnull && b.len() >= need;
}

/* ------------------------------------------------------------------ operations */

/* returns the result line, or NULL if the line was already printed */
static const char *execOp(const Toks &a)
{
    const std::string &op = a[0];
    size_t argc = a.size();
    Bytes d;
    long n = 0;

    if (op == "cfg" || op == "sizes" || op == "probes" || op == "junk" || op == "align") return OK;

    if (op == "s128.key.new")   { if (argc != 2) return BAD; newSlot(k128, a[1]); return OK; }
    if (op == "s128.tkey.new")  { if (argc != 2) return BAD; newSlot(t128, a[1]); return OK; }
    if (op == "s64.key.new")    { if (argc != 2) return BAD; newSlot(k64, a[1]); return OK; }
    if (op == "s64.tkey.new")   { if (argc != 2) return BAD; newSlot(t64, a[1]); return OK; }
    if (op == "mantis.key.new") { if (argc != 2) return BAD; newSlot(mk, a[1]); return OK; }

    /* ---- key setup: instantiates the class that matches the requested size */
    if (op == "s128.set_key") {
        if (argc != 4 || !parseHex(a[2], d) || !parseNum(a[3], n)) return BAD;
        if (a[1] == "NULL") return UNDEF;
        Plain128 *s = findSlot(k128, a[1]);
        if (!s) return BAD;
        if (n != 16 && n != 32 && n != 48) return UNDEF;
        if (!readable(d, (size_t)n)) return UNDEF;
        delete s->c;
        s->c = n == 16 ? (BlockCipher *)new Skinny128_128()
             : n == 32 ? (BlockCipher *)new Skinny128_256()
                       : (BlockCipher *)new Skinny128_384();
        return ret(s->c->setKey(d.ptr(), (size_t)n));
    }
    if (op == "s64.set_key") {
        if (argc != 4 || !parseHex(a[2], d) || !parseNum(a[3], n)) return BAD;
        if (a[1] == "NULL") return UNDEF;
        Plain64 *s = findSlot(k64, a[1]);
        if (!s) return BAD;
        if (n != 8 && n != 16 && n != 24) return UNDEF;
        if (!readable(d, (size_t)n)) return UNDEF;
        delete s->c;
        s->c = n == 8  ? (BlockCipher *)new Skinny64_64()
             : n == 16 ? (BlockCipher *)new Skinny64_128()
                       : (BlockCipher *)new Skinny64_192();
        return ret(s->c->setKey(d.ptr(), (size_t)n));
    }
    if (op == "s128.set_tweaked_key") {
        if (argc != 4 || !parseHex(a[2], d) || !parseNum(a[3], n)) return BAD;
        if (a[1] == "NULL") return UNDEF;
        Tweak128 *s = findSlot(t128, a[1]);
        if (!s) return BAD;
        if (n != 16 && n != 32) return UNDEF;
        if (!readable(d, (size_t)n)) return UNDEF;
        /* an object of the right class is re-keyed in place, as a caller of the C library re-keys a schedule: the stored
           tweak must then be the zero tweak again (a fresh object every time would hide state that survives setKey) */
        if (s->c && s->c->keySize() == (size_t)n) return ret(s->c->setKey(d.ptr(), (size_t)n));
        delete s->c;
        s->c = 0;
        if (n == 16) {
            Skinny128_256_Tweaked *c = new Skinny128_256_Tweaked();
            s->c = c;
            return ret(c->setKey(d.ptr(), (size_t)n));
        } else {
            Skinny128_384_Tweaked *c = new Skinny128_384_Tweaked();
            s->c = c;
            return ret(c->setKey(d.ptr(), (size_t)n));
        }
    }
    if (op == "s64.set_tweaked_key") {
        if (argc != 4 || !parseHex(a[2], d) || !parseNum(a[3], n)) return BAD;
        if (a[1] == "NULL") return UNDEF;
        Tweak64 *s = findSlot(t64, a[1]);
        if (!s) return BAD;
        if (n != 8 && n != 16) return UNDEF;
        if (!readable(d, (size_t)n)) return UNDEF;
        if (s->c && s->c->keySize() == (size_t)n) return ret(s->c->setKey(d.ptr(), (size_t)n));
        delete s->c;
        s->c = 0;
        if (n == 8) {
            Skinny64_128_Tweaked *c = new Skinny64_128_Tweaked();
            s->c = c;
            return ret(c->setKey(d.ptr(), (size_t)n));
        } else {
            Skinny64_192_Tweaked *c = new Skinny64_192_Tweaked();
            s->c = c;
            return ret(c->setKey(d.ptr(), (size_t)n));
        }
    }

    /* ---- tweaks */
    if (op == "s128.set_tweak" || op == "s64.set_tweak" || op == "mantis.set_tweak") {
        if (argc != 4 || !parseHex(a[2], d) || !parseNum(a[3], n)) return BAD;
        if (a[1] == "NULL") return UNDEF;
        if (n < 0) return UNDEF;
        size_t want = op == "s128.set_tweak" ? 16 : 8;
        /* the method only reads the buffer when len == want and the pointer is non-null */
        bool wouldOverread = (size_t)n == want && !d.isnull && d.len() < want;
        if (op == "s128.set_tweak") {
            Tweak128 *s = findSlot(t128, a[1]);
            if (!s) return BAD;
            if (!s->c || wouldOverread) return UNDEF;
            return ret(s->c->setTweak(d.ptr(), (size_t)n));
        } else if (op == "s64.set_tweak") {
            Tweak64 *s = findSlot(t64, a[1]);
            if (!s) return BAD;
            if (!s->c || wouldOverread) return UNDEF;
            return ret(s->c->setTweak(d.ptr(), (size_t)n));
        } else {
            MantisSlot *s = findSlot(mk, a[1]);
            if (!s) return BAD;
            if (!s->c || wouldOverread) return UNDEF;
            return ret(s->c->setTweak(d.ptr(), (size_t)n));
        }
    }

    /* ---- single-block operations */
    if (op == "s128.enc" || op == "s128.dec" || op == "s128.tenc" || op == "s128.tdec" ||
        op == "s64.enc" || op == "s64.dec" || op == "s64.tenc" || op == "s64.tdec" || op == "mantis.crypt") {
        if (argc != 3 || !parseHex(a[2], d)) return BAD;
        if (a[1] == "NULL") return UNDEF;
        BlockCipher *c = 0;
        bool found = false;
        if (op == "s128.enc" || op == "s128.dec")        { Plain128 *s = findSlot(k128, a[1]); if (s) { found = true; c = s->c; } }
        else if (op == "s128.tenc" || op == "s128.tdec") { Tweak128 *s = findSlot(t128, a[1]); if (s) { found = true; c = s->c; } }
        else if (op == "s64.enc" || op == "s64.dec")     { Plain64 *s = findSlot(k64, a[1]); if (s) { found = true; c = s->c; } }
        else if (op == "s64.tenc" || op == "s64.tdec")   { Tweak64 *s = findSlot(t64, a[1]); if (s) { found = true; c = s->c; } }
        else                                             { MantisSlot *s = findSlot(mk, a[1]); if (s) { found = true; c = s->c; } }
        if (!found) return BAD;
        if (!c) return UNDEF;
        size_t bs = c->blockSize();
        if (d.isnull || d.len() != bs) return UNDEF;
        uint8_t out[16];
        memset(out, 0, sizeof(out));
        bool dec = op.size() >= 3 && op.compare(op.size() - 3, 3, "dec") == 0;
        if (dec) c->decryptBlock(out, d.ptr());
        else     c->encryptBlock(out, d.ptr());
        putHex(out, bs);
        putchar('\n');
        return 0;
    }

    /* ---- Mantis */
    if (op == "mantis.set_key") {
        long rounds = 0, mode = 0;
        if (argc != 6 || !parseHex(a[2], d) || !parseNum(a[3], n) || !parseNum(a[4], rounds) || !parseNum(a[5], mode)) return BAD;
        if (a[1] == "NULL") return UNDEF;
        MantisSlot *s = findSlot(mk, a[1]);
        if (!s) return BAD;
        if (rounds != 8 || n != 16) return UNDEF;
        if (!readable(d, 16)) return UNDEF;
        delete s->c;
        s->c = new Mantis8();
        bool r = s->c->setKey(d.ptr(), 16);
        if (mode == 0) s->c->swapModes();
        return ret(r);
    }
    if (op == "mantis.swap") {
        if (argc != 2) return BAD;
        if (a[1] == "NULL") return UNDEF;
        MantisSlot *s = findSlot(mk, a[1]);
        if (!s) return BAD;
        if (!s->c) return UNDEF;
        s->c->swapModes();
        return OK;
    }

    /* ---- CTR */
    if (op == "ctr128.new" || op == "ctr64.new") {
        if (argc != 3 || !parseNum(a[2], n)) return BAD;
        CTRCommon *c = 0;
        if (op == "ctr128.new") {
            if (n == 128) c = new CTR<Skinny128_128>();
            else if (n == 256) c = new CTR<Skinny128_256>();
            else if (n == 384) c = new CTR<Skinny128_384>();
        } else {
            if (n == 64) c = new CTR<Skinny64_64>();
            else if (n == 128) c = new CTR<Skinny64_128>();
            else if (n == 192) c = new CTR<Skinny64_192>();
        }
        if (!c) return BAD;
        newSlot(ctrs, a[1]);
        ctrs[a[1]].c = c;
        return OK;
    }
    if (op == "ctr.set_key" || op == "ctr.set_iv" || op == "ctr.encrypt") {
        if (argc != 3 || !parseHex(a[2], d)) return BAD;
        if (a[1] == "NULL") return UNDEF;
        CtrSlot *s = findSlot(ctrs, a[1]);
        if (!s) return BAD;
        if (!s->c) return UNDEF;
        if (op == "ctr.set_key") {
            bool r = s->c->setKey(d.ptr(), d.len());
            if (r) s->keyDefined = true;
            return ret(r);
        }
        if (op == "ctr.set_iv") {
            bool r = s->c->setIV(d.ptr(), d.len());
            if (r) s->ivDefined = true;
            return ret(r);
        }
        size_t len = d.len();
        if (len > 0 && !(s->keyDefined && s->ivDefined)) return UNDEF;
        std::vector<uint8_t> out(len + 1, 0);
        s->c->encrypt(&out[0], d.ptr(), len);
        fputs("out=", stdout);
        putHex(&out[0], len);
        putchar('\n');
        return 0;
    }
    if (op == "ctr.set_counter_size") {
        if (argc != 3 || !parseNum(a[2], n)) return BAD;
        if (a[1] == "NULL") return UNDEF;
        CtrSlot *s = findSlot(ctrs, a[1]);
        if (!s) return BAD;
        if (!s->c) return UNDEF;
        if (n < 0) return UNDEF;
        return ret(s->c->setCounterSize((size_t)n));
    }
    if (op == "ctr.clear") {
        if (argc != 2) return BAD;
        if (a[1] == "NULL") return UNDEF;
        CtrSlot *s = findSlot(ctrs, a[1]);
        if (!s) return BAD;
        if (!s->c) return UNDEF;
        s->c->clear();
        /* clear() zeroes the key schedule, the counter and the keystream block: all determinate now */
        s->keyDefined = true;
        s->ivDefined = true;
        return OK;
    }

    return BAD;
}

int main()
{
    setvbuf(stdout, NULL, _IOLBF, 1 << 16);
    std::string line;
    while (std::getline(std::cin, line)) {
        while (!line.empty() && (line[line.size() - 1] == '\n' || line[line.size() - 1] == '\r' || line[line.size() - 1] == ' '))
            line.erase(line.size() - 1);
        if (line.empty() || line[0] == '#') continue;
        size_t pos = 0;
        if (line == "?") continue;                      /* "? " with nothing after it */
        if (line.compare(0, 2, "? ") == 0) pos = 2;
        Toks toks;
        while (pos < line.size()) {
            while (pos < line.size() && line[pos] == ' ') ++pos;
            if (pos >= line.size()) break;
            size_t e = line.find(' ', pos);
            if (e == std::string::npos) e = line.size();
            toks.push_back(line.substr(pos, e - pos));
            pos = e;
        }
        if (toks.empty()) continue;
        const char *r = execOp(toks);
        if (r) { fputs(r, stdout); putchar('\n'); }
        fflush(stdout);
    }
    fflush(stdout);
    return 0;
}
